"""C19 -- KlattGrid and point-object files round-trip every number exactly."""
import os
import random
import shutil
from .. import core

ID = "C19"
MODULE = "Check.C19Check"
CASE_TYPE = "C19case"
CORR, ORACLE, HYP = "C19corr", "C19true", "C19true"
RULE = ("(a) point blocks of 0..6 points written in Praat style (trailing blanks) and in praatio's own style, indented or not, "
        "number tokens = integers, 1-17 digit decimals, exponents, negatives, zero, read by klattgrid._processSectionData; (b) "
        "PointProcess / PitchTier / DurationTier objects with 0..8 points x spans, saved, the text compared with the writer model, "
        "reopened (short form) and compared; the same data written in Praat's long text form by the harness and opened; (c) the "
        "reference KlattGrid and synthetic KlattGrids (1..5, sometimes 10..12 formants, 0..5, sometimes 10..13 points per tier, Praat style) opened, optionally "
        "modified through modifySubtiers / modifyValues on a random subset of tiers with scalings by non-terminating decimals, "
        "constants (integers, 0), sign changes, 1e+-300 magnitudes, saved, reopened, saved again; non-trivial = at least one point")
EXPLANATION = ("Props/C19.v proves that the point rows written for a KlattGrid tier are read back as exactly the same (time, value) "
               "tokens for any number of points, that modifyValues is a map over the values (each value once, times untouched), "
               "that slicing a file into sections at ascending indices loses no character (with the pre-repair slicer refuted), and "
               "that the short text form of 1D and 2D point objects round-trips class line, span and every point token.  This run "
               "compares _processSectionData, PointObject.save and the short-form readers with the models inside Coq, and decides "
               "the whole-file clauses on real files: KlattGrid open/save/open digit for digit incl. hierarchy and spans, the "
               "fixed point of save, call counts and untouched tiers under modification, point-object equality long vs short.")
TRUSTED = ["models: Klatt/PointsModel.v process_points, print_points, sections, po_save, po_open_1d/2d",
           "repr()/float() round trip of CPython: numbers are tokens in the models; 'digit for digit' is judged on float(token) bit patterns",
           "the top-level KlattGrid reader (section discovery by keyword, container tiers) is evaluated on files, not modelled",
           "the independent KlattGrid / long-form writers in this module are my reading of Praat's text formats and of tests/files/bobby.KlattGrid"]
ASSUMPTIONS = ["number tokens are what repr() of a binary64 value prints, or Praat-style numerals"]
CLASSES = {"point": "PointProcess", "pitch": "PitchTier", "duration": "DurationTier"}


def rnum(rng, positive=False):
    u = rng.random()
    if u < 0.2:
        x = float(rng.randint(0 if positive else -500, 5000))
    elif u < 0.55:
        x = float("%d.%s" % (rng.randint(0, 3000), "".join(rng.choice("0123456789") for _ in range(rng.randint(1, 17)))))
    elif u < 0.7:
        x = 10 ** rng.uniform(-300, 300)
    elif u < 0.8:
        x = rng.random() * 10 ** rng.randint(-8, -5)
    elif u < 0.85:
        x = 0.0
    else:
        x = rng.uniform(0, 3)
    if not positive and rng.random() < 0.15:
        x = -x
    return x


def tok(rng, x):
    """how a file may spell x"""
    if x == int(x) and abs(x) < 1e15 and rng.random() < 0.7:
        return "%d" % x
    return repr(x)


def gen_block(rng):
    n = rng.randint(0, 6)
    praat = rng.random() < 0.5
    indent = "    " if rng.random() < 0.5 else ""
    times = sorted(rnum(rng, True) for _ in range(n))
    pts = [(tok(rng, t), tok(rng, rnum(rng))) for t in times]
    lines = []
    sp = " " if praat else ""
    for k, (t, v) in enumerate(pts):
        lines.append("%spoints [%d]:" % (indent, k + 1))
        lines.append("%s    number = %s%s" % (indent, t, sp))
        lines.append("%s    value = %s%s" % (indent, v, sp))
    return "\n".join(lines), pts


def generate(tier, rng):
    cases = []
    for _ in range(500 if tier == "quick" else 15000):
        block, pts = gen_block(rng)
        cases.append({"op": "block", "block": block, "pts": pts, "scale": ["tokens", 0]})
    for _ in range(400 if tier == "quick" else 10000):
        kind = rng.choice(["point", "pitch", "duration"])
        n = rng.randint(0, 8)
        times = sorted(set(rnum(rng, True) for _ in range(n)))
        pts = [[t] if kind == "point" else [t, rnum(rng)] for t in times]
        if kind != "point" and pts and rng.random() < 0.3:
            # a step: two points at one time, in the order given (the list is kept as it is, not re-ordered)
            k = rng.randrange(len(pts))
            pts.insert(k + 1, [pts[k][0], pts[k][1] / 2 if rng.random() < 0.7 else pts[k][1] * 3])
        mx = (max(times) if times else 1.0) + rng.choice([0.0, 0.5, 1e-9])
        mn = rng.choice([0, 0.0, min(times) / 2 if times else 0.25])
        cases.append({"op": "pobj", "kind": kind, "pts": pts, "mn": mn, "mx": mx, "scale": ["tokens", 0]})
    for _ in range(60 if tier == "quick" else 1500):
        cases.append({"op": "klatt", "seed": rng.randint(0, 10 ** 9), "ref": rng.random() < 0.25, "scale": ["tokens", 0], "pts": [1]})
    return cases


# ------------------------------------------------------------------ independent KlattGrid writer (Praat style)

SIMPLE = ["pitch", "voicingAmplitude", "flutter", "power1", "power2", "openPhase", "collisionPhase", "doublePulsing",
          "spectralTilt", "aspirationAmplitude", "breathinessAmplitude"]


def _pts_block(pts, indent):
    out = []
    for k, (t, v) in enumerate(pts):
        out.append("%spoints [%d]:" % (indent, k + 1))
        out.append("%s    number = %s " % (indent, t))
        out.append("%s    value = %s " % (indent, v))
    return out


def write_klatt(rng, xmax):
    """returns (text, expected) where expected = list of (path, min, max, [(time token, value token)])"""
    X = repr(xmax)
    lines = ['File type = "ooTextFile"', 'Object class = "KlattGrid"', "", "xmin = 0 ", "xmax = %s " % X]
    exp = []

    def rpts():
        n = rng.randint(0, 5) if rng.random() < 0.93 else rng.randint(10, 13)      # now and then two-digit point indices
        times = set(min(round(rng.uniform(0, xmax), rng.randint(1, 12)), xmax) for _ in range(n))
        if rng.random() < 0.15:
            # points on the first samples of a recording: times far below 1e-4 s with all their digits
            r = rng.choice([22050, 44100, 48000, 16000, 96000])
            times |= set(k / r for k in rng.sample(range(1, 9), rng.randint(1, 3)) if k / r <= xmax)
        times = sorted(times)
        return [(tok(rng, t), tok(rng, rnum(rng))) for t in times]

    def null(name):
        lines.extend(["%s? <exists> " % name, "xmin = 0 ", "xmax = %s " % X])
        exp.append(((name,), "0", X, None))

    def simple(name):
        pts = rpts()
        lines.extend(["%s? <exists> " % name, "xmin = 0 ", "xmax = %s " % X, "points: size = %d " % len(pts)])
        lines.extend(_pts_block(pts, ""))
        exp.append(((name,), "0", X, pts))

    def container(name, subs, nform):
        lines.extend(["%s? <exists> " % name, "xmin = 0 ", "xmax = %s " % X])
        for sub in subs:
            lines.append("%s: size=%d " % (sub, nform))
            for k in range(nform):
                pts = rpts()
                lines.extend(["%s [%d]:" % (sub, k + 1), "    xmin = 0 ", "    xmax = %s " % X, "    points: size = %d " % len(pts)])
                lines.extend(_pts_block(pts, "    "))
                exp.append(((name, sub, "%s [%d]" % (sub, k + 1)), "0", X, pts))

    nf = rng.randint(1, 5) if rng.random() < 0.9 else rng.randint(10, 12)       # now and then two-digit formant indices
    null("phonation")
    for nm in SIMPLE:
        simple(nm)
    null("vocalTract")
    container("oral_formants", ["formants", "bandwidths"], nf)
    container("nasal_formants", ["formants", "bandwidths"], rng.randint(1, 2))
    container("nasal_antiformants", ["formants", "bandwidths"], rng.randint(1, 2))
    null("coupling")
    container("tracheal_formants", ["formants", "bandwidths"], 1)
    container("tracheal_antiformants", ["formants", "bandwidths"], 1)
    container("delta_formants", ["formants", "bandwidths"], rng.randint(1, 3))
    null("frication")
    simple("frication_amplitude")
    container("frication_formants", ["formants", "bandwidths", "frication_formants_amplitudes"], rng.randint(1, 4))
    simple("bypass")
    simple("gain")
    return "\n".join(lines) + "\n", exp


def _dump_kg(kg):
    from praatio.data_classes.klattgrid import KlattContainerTier
    out = []
    for n in kg.tierNames:
        t = kg._tierDict[n]
        if isinstance(t, KlattContainerTier):
            for n2 in t.tierNameList:
                it = t.tierDict[n2]
                for n3 in it.tierNameList:
                    st = it.tierDict[n3]
                    out.append([[n, n2, n3], float(st.minTimestamp).hex(), float(st.maxTimestamp).hex(),
                                [[float(a).hex(), float(b).hex()] for a, b in st.entries]])
        else:
            out.append([[n], float(t.minTimestamp).hex(), float(t.maxTimestamp).hex(), [[float(a).hex(), float(b).hex()] for a, b in t.entries]])
    return out


def _run_klatt(case, d):
    from praatio import klattgrid
    from praatio.data_classes.klattgrid import KlattContainerTier
    rng = random.Random(case["seed"])
    probs = []
    fn0 = os.path.join(d, "in.KlattGrid")
    exp = None
    if case["ref"]:
        shutil.copy(os.path.join(core.REPO, "tests", "files", "bobby.KlattGrid"), fn0)
    else:
        txt, exp = write_klatt(rng, rng.choice([1.5, 0.8696875, 2.0, 1.194625]))
        # the encodings Praat itself writes: UTF-8, or UTF-16 with a byte order mark (big endian on most installations)
        enc = rng.choice(["utf-8", "utf-8", "utf-16", "utf-16-be-bom"])
        if enc == "utf-16-be-bom":
            with open(fn0, "wb") as fh:
                fh.write(b"\xfe\xff" + txt.encode("utf-16-be"))
        else:
            with open(fn0, "w", encoding=enc, newline="") as fh:
                fh.write(txt)
    kg = klattgrid.openKlattgrid(fn0)
    d0 = _dump_kg(kg)
    if exp is not None:
        want = [[list(p), float(mn).hex(), float(mx).hex(), [[float(a).hex(), float(b).hex()] for a, b in (pts or [])]] for p, mn, mx, pts in exp]
        if [x[0] for x in d0] != [x[0] for x in want]:
            probs.append("tier hierarchy read %r, file has %r" % ([x[0] for x in d0][:8], [x[0] for x in want][:8]))
        else:
            for g, w in zip(d0, want):
                if g != w:
                    probs.append("tier %s read as %r, file has %r" % ("/".join(g[0]), g[1:][:3], w[1:][:3]))
                    break
    # optional modification of a random subset of tiers
    calls = []
    expected_after = [[x[0], x[1], x[2], [list(e) for e in x[3]]] for x in d0]
    if rng.random() < 0.5:
        kg.save(os.path.join(d, "pre.KlattGrid"))       # an earlier save must not influence later ones
    if rng.random() < 0.7:
        kind = rng.choice(["scale", "const", "neg", "tiny", "huge", "zero", "iconst", "izero"])
        # (a function may just as well return a Python int: 120, 0)
        c = {"scale": rng.choice([1.1, 0.9, 1 / 3, 2 ** 0.5]), "const": float(rng.choice([120, 7, 50])), "neg": -1.0,
             "tiny": 1e-300, "huge": 1e300, "zero": 0.0, "iconst": rng.choice([120, 7, 50]), "izero": 0}[kind]

        def fn(v):
            calls.append(v)
            if kind in ("scale", "tiny", "huge", "neg"):
                return v * c
            return c
        targets = []
        for n in kg.tierNames:
            t = kg._tierDict[n]
            if isinstance(t, KlattContainerTier):
                for n2 in t.tierNameList:
                    u = rng.random()
                    if u < 0.3:
                        t.modifySubtiers(n2, fn)
                        targets.append((n, n2))
                    elif u < 0.5:
                        # one sub-tier addressed directly
                        it = t.tierDict[n2]
                        n3 = rng.choice(it.tierNameList)
                        it.tierDict[n3].modifyValues(fn)
                        targets.append((n, n2, n3))
            elif rng.random() < 0.2:
                t.modifyValues(fn)
                targets.append((n,))
        ncalls = 0
        for x in expected_after:
            path = tuple(x[0])
            if path[:2] in targets or path in targets:
                for e in x[3]:
                    v = float.fromhex(e[1])
                    e[1] = float(fn(v) if False else (v * c if kind in ("scale", "tiny", "huge", "neg") else c)).hex()
                    ncalls += 1
        if len(calls) != ncalls:
            probs.append("the modification function was called %d times for %d addressed values" % (len(calls), ncalls))
        d1 = _dump_kg(kg)
        if d1 != expected_after:
            for g, w in zip(d1, expected_after):
                if g != w:
                    probs.append("after modification tier %s is %r, expected %r" % ("/".join(g[0]), g[3][:2], w[3][:2]))
                    break
    fn1, fn2 = core.fname(os.path.join(d, "out1.KlattGrid")), core.fname(os.path.join(d, "out2.KlattGrid"))
    kg.save(fn1)
    kg2 = klattgrid.openKlattgrid(fn1)
    d2 = _dump_kg(kg2)
    # -0.0 is written as 0: the same number
    norm = lambda dd: [[x[0], x[1], x[2], [[(0.0).hex() if float.fromhex(h) == 0 else h for h in e] for e in x[3]]] for x in dd]  # noqa
    if norm(d2) != norm(expected_after):
        for g, w in zip(norm(d2), norm(expected_after)):
            if g != w:
                bad = [(a, b) for a, b in zip(g[3], w[3]) if a != b][:2]
                probs.append("after save and reopen tier %s differs: span %r vs %r, first differing points %r" % (
                    "/".join(g[0]), g[1:3], w[1:3], [([float.fromhex(x) for x in a], [float.fromhex(x) for x in b]) for a, b in bad]))
                break
        if len(d2) != len(expected_after):
            probs.append("tier hierarchy changed on save/reopen")
    kg2.save(fn2)

    def same_text(a, b):
        # the same file up to the spelling of whole numbers (a value set to the int 7 is written "7", read as 7.0
        # and written "7.0": the same number, which is all the property asks)
        la, lb = a.split("\n"), b.split("\n")
        if len(la) != len(lb):
            return False
        for x, y in zip(la, lb):
            if x != y:
                hx, _, tx = x.rpartition("=")
                hy, _, ty = y.rpartition("=")
                try:
                    if hx != hy or float(tx) != float(ty):
                        return False
                except ValueError:
                    return False
        return True
    if not same_text(open(fn1, encoding="utf-8").read(), open(fn2, encoding="utf-8").read()):
        probs.append("saving the reopened KlattGrid does not reproduce the first saved file")
    return probs[:5]


def _write_long_po(kind, mn, mx, pts):
    lines = ['File type = "ooTextFile"', 'Object class = "%s"' % CLASSES[kind], "", "xmin = %s " % repr(mn), "xmax = %s " % repr(mx)]
    if kind == "point":
        lines.append("nt = %d " % len(pts))
        lines.append("t []: ")
        for k, (t,) in enumerate(pts):
            lines.append("    t [%d] = %s " % (k + 1, repr(t)))
    else:
        lines.append("points: size = %d " % len(pts))
        for k, (t, v) in enumerate(pts):
            lines.append("points [%d]:" % (k + 1))
            lines.append("    number = %s " % repr(t))
            lines.append("    value = %s " % repr(v))
    return "\n".join(lines) + "\n"


def run(case):
    op = case["op"]
    if op == "block":
        from praatio import klattgrid

        def f():
            return [[repr(a), repr(b)] for a, b in klattgrid._processSectionData(case["block"])]
        return core.run_guarded(f)
    d = os.path.join(core.VERIF, ".work", "c19.%d" % os.getpid())
    shutil.rmtree(d, ignore_errors=True)
    os.makedirs(d)
    try:
        if op == "klatt":
            return core.run_guarded(lambda: _run_klatt(case, d))
        from praatio import data_points
        from praatio.data_classes.data_point import PointObject1D, PointObject2D
        kind = case["kind"]

        def g():
            pts = [tuple(p) for p in case["pts"]]
            cls = CLASSES[kind]
            po = (PointObject1D if kind == "point" else PointObject2D)(pts, cls, case["mn"], case["mx"])
            fn = core.fname(os.path.join(d, "a.txt"))
            po.save(fn)
            with open(fn, encoding="utf-8", newline="") as fh:
                text = fh.read()
            opener = data_points.open1DPointObject if kind == "point" else data_points.open2DPointObject
            out = {"text": text, "cls": cls, "mn_tok": repr(po.minTime), "mx_tok": repr(po.maxTime)}
            probs = []
            try:
                po2 = opener(fn)
                out["opened"] = {"mn": repr(float(po2.minTime)), "mx": repr(float(po2.maxTime)), "pts": [[repr(x) for x in p] for p in po2.pointList]}
                if po2.objectClass != cls:
                    probs.append("class %r came back as %r" % (cls, po2.objectClass))
                if [tuple(float(x).hex() for x in p) for p in po2.pointList] != [tuple(float(x).hex() for x in p) for p in pts]:
                    probs.append("point list changed on save/open")
                if float(po2.minTime) != float(po.minTime) or float(po2.maxTime) != float(po.maxTime):
                    probs.append("span (%r, %r) came back as (%r, %r)" % (po.minTime, po.maxTime, po2.minTime, po2.maxTime))
                if not (po2 == po):
                    probs.append("reopened object != original")
            except Exception as e:  # noqa
                out["open_err"] = core.err_kind(e)
                probs.append("opening the saved %s raised %s: %s" % (cls, type(e).__name__, e))
            # Praat's long text form of the same data
            fl = core.fname(os.path.join(d, "long.txt"))
            with open(fl, "w", encoding="utf-8") as fh:
                fh.write(_write_long_po(kind, po.minTime, po.maxTime, pts))
            try:
                po3 = opener(fl)
                if not (po3 == po):
                    probs.append("the long text form opens to a different object: span (%r, %r), %d points vs span (%r, %r), %d points"
                                 % (po3.minTime, po3.maxTime, len(po3.pointList), po.minTime, po.maxTime, len(po.pointList)))
            except Exception as e:  # noqa
                probs.append("opening the long text form (%d points) raised %s: %s" % (len(pts), type(e).__name__, e))
            out["problems"] = probs
            return out
        return core.run_guarded(g)
    finally:
        shutil.rmtree(d, ignore_errors=True)


def ccanon(tokens):
    items = []
    for w in sorted(set(tokens)):
        try:
            v = float(w)
        except ValueError:
            continue
        items.append("(%s, %s)" % (core.ctext(w), core.ctext(repr(v))))
    return core.clist(items, "(text * text)")


def cpairs(l):
    return core.clist(["(%s, %s)" % (core.ctext(a), core.ctext(b)) for a, b in l], "(text * text)")


def emit(case, r):
    return None


def emit_multi(case, r):
    op = case["op"]
    if op == "block":
        toks = [x for p in case["pts"] for x in p]
        out = "(Ok %s)" % cpairs(r["ok"]) if "ok" in r else "(Err %s)" % r["err"]
        return ["ProcSection %s %s %s" % (core.ctext(case["block"]), ccanon(toks), out)]
    if op == "pobj" and "ok" in r:
        v = r["ok"]
        vals = [repr(x) for p in case["pts"] for x in p]
        terms = ["PoSave %s %s %s %d%%nat %s %s" % (core.ctext(v["cls"]), core.ctext(v["mn_tok"]), core.ctext(v["mx_tok"]), len(case["pts"]),
                                                  core.clist([core.ctext(x) for x in vals], "text"), core.ctext(v["text"]))]
        canon = ccanon(vals + [v["mn_tok"], v["mx_tok"]])
        if "opened" in v:
            o = v["opened"]
            if case["kind"] == "point":
                terms.append("PoOpen1 %s %s (Ok (%s, %s, %s))" % (core.ctext(v["text"]), canon, core.ctext(o["mn"]), core.ctext(o["mx"]),
                                                                 core.clist([core.ctext(p[0]) for p in o["pts"]], "text")))
            else:
                terms.append("PoOpen2 %s %s (Ok (%s, %s, %s))" % (core.ctext(v["text"]), canon, core.ctext(o["mn"]), core.ctext(o["mx"]), cpairs(o["pts"])))
        return terms
    return []


def model_expr(case):
    if case["op"] == "block":
        return "process_section %s" % core.ctext(case["block"])
    return None


def py_checks(case, r):
    op = case["op"]
    if "ok" not in r:
        return ["%s raised %s" % (op, r.get("exc", r))]
    if op == "block":
        want = [[repr(float(a)), repr(float(b))] for a, b in case["pts"]]
        return [] if r["ok"] == want else ["_processSectionData returned %r for the points %r" % (r["ok"][:3], case["pts"][:3])]
    if op == "pobj":
        return r["ok"]["problems"]
    return r["ok"]


def classify(case, r):
    out = "ok" if "ok" in r else "err:" + r.get("err", "?")
    if case["op"] == "pobj":
        return "pobj/%s/%s/%s" % (case["kind"], "empty" if not case["pts"] else "points", out)
    if case["op"] == "klatt":
        return "klatt/%s/%s" % ("reference" if case["ref"] else "synthetic", out)
    return "block/%s" % out


def nontrivial(case, r):
    return bool(case["pts"])


def shrinks(case):
    if case["op"] == "pobj":
        for k in range(len(case["pts"])):
            yield dict(case, pts=case["pts"][:k] + case["pts"][k + 1:])


def finding_match(case, r, kind, why, findings):
    for f in findings:
        pred = f.get("matcher", {}).get("pred")
        if pred == "empty_long_form_point_object" and case["op"] == "pobj" and not case["pts"]:
            if all("long text form" in p for p in (r.get("ok", {}).get("problems") or ["x"])):
                return f["id"]
    return None
