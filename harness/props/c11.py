"""C11 -- insertEntry/deleteEntry follow the selected collision policy exactly."""
import itertools
from .. import core, gen, tierops

ID = "C11"
MODULE = "Check.C11Check"
CASE_TYPE = "C11case"
CORR, ORACLE, HYP = "C11corr", "C11oracle", "C11hyp"
RULE = ("small scope: all wf tiers of <=3 intervals on the even grid 0..8 x all new entries with ends in -1..11 x 3 collision "
        "modes x {silence,warning} (quick: sampled); point tiers likewise; deleteEntry of present/absent entries; random histories "
        "(<=12 steps) of inserts and deletes on one object compared step by step (outcome and state after every step); dyadic and "
        "decimal grids; non-trivial = the tier has entries or the history has >= 2 steps")
EXPLANATION = ("Props/C11.v proves that the model of IntervalTier.insertEntry equals the collision-policy specification for every wf "
               "tier, entry and mode, that order/disjointness/span are re-established, and the delete clauses.  This run compares "
               "implementation state after every call with model and specification inside Coq.")
TRUSTED = ["models: Tier/TierModel.v insert_i, insert_p, delete_i, delete_p, resort_span_i"]
ASSUMPTIONS = ["point tiers are generated with distinct times (the property does not define 'the colliding entries' for duplicate-time tiers)",
               "entry labels are generated stripped (label normalisation is C05's clause)"]
MODES = list(tierops.INS)


def _rand_entry(rng, t, big):
    if t["kind"] == "I":
        bs = [x for e in t["entries"] for x in e[:2]] or [0]
        u = rng.random()
        gaps = [(x[1], y[0]) for x, y in zip(t["entries"], t["entries"][1:]) if x[1] < y[0]]
        if len(t["entries"]) > 60 and u < 0.3:
            # a long tier: an interval that lies across a hundred entries and more (all of them collide)
            i = rng.randrange(0, len(t["entries"]) // 3)
            j = rng.randrange(2 * len(t["entries"]) // 3, len(t["entries"]))
            return [t["entries"][i][0] + rng.choice([0, 1]), t["entries"][j][1] - rng.choice([0, 1]), rng.choice(["n", "m", "", "a"])]
        if gaps and len(t["entries"]) > 12 and u < 0.65:
            # a long tier: fill a gap (or the part of it that touches one neighbour)
            g = rng.choice(gaps)
            s, e = g
            if e - s > 1 and rng.random() < 0.5:
                if rng.random() < 0.5:
                    s += 1
                else:
                    e -= 1
            return [s, e, rng.choice(["n", "m", "", "a"])]
        if u < 0.4:
            s = rng.choice(bs) + rng.choice([-1, 0, 0, 1])
            e = rng.choice(bs) + rng.choice([-1, 0, 0, 1])
        else:
            s, e = rng.randint(-3, big + 5), rng.randint(-3, big + 5)
        if s > e and rng.random() < 0.9:
            s, e = e, s
        if s == e and rng.random() < 0.8:
            e += rng.randint(1, 4)
        return [s, e, rng.choice(["n", "m", "", "a"])]
    ts = [e[0] for e in t["entries"]] or [0]
    x = rng.choice(ts) if rng.random() < (0.8 if len(ts) > 60 else 0.4) else rng.randint(-3, big + 5)
    return [x, rng.choice(["n", "m", "", "zz", "A"])]


def generate(tier, rng):
    cases = []
    small = gen.small_itiers(8, 3)
    news = [(s, e) for s in range(-1, 12) for e in range(-1, 12)]
    combos = list(itertools.product(range(len(small)), news, MODES))
    if tier == "quick":
        combos = rng.sample(combos, min(len(combos), 3000))
    for ti, (s, e), m in combos:
        cases.append({"op": "insert", "tier": small[ti], "args": {"e": [s, e, "n"], "mode": m, "report": rng.choice(["silence", "warning"])},
                      "scale": ["dyadic", rng.choice([0, 3])]})
    for t in gen.small_ptiers(8, 3):
        for x in range(-1, 11):
            for m in MODES:
                cases.append({"op": "insert", "tier": t, "args": {"e": [x, "n"], "mode": m, "report": "silence"}, "scale": ["dyadic", 1]})
    n = 1500 if tier == "quick" else 40000
    for _ in range(n):
        sc = gen.pick_scale(rng, decimal_share=0.3)
        big = 40
        t = gen.random_itier(rng, tmax=big, maxn=6, long_p=0.03) if rng.random() < 0.7 else gen.random_ptier(rng, tmax=big, maxn=6, long_p=0.06)
        u = rng.random()
        if u < 0.25:
            if t["entries"] and rng.random() < 0.7:
                e = list(rng.choice(t["entries"]))
                if rng.random() < 0.2:
                    e[-1] = e[-1] + "x"
            else:
                e = _rand_entry(rng, t, big)
            cases.append({"op": "delete", "tier": t, "args": {"e": e}, "scale": sc})
        else:
            steps = []
            cur_entries = [list(x) for x in t["entries"]]
            for _k in range(rng.randint(1, 12)):
                if rng.random() < 0.7 or not cur_entries:
                    steps.append({"op": "insert", "e": _rand_entry(rng, t, big), "mode": rng.choice(MODES)})
                else:
                    e = list(rng.choice(cur_entries))
                    steps.append({"op": "delete", "e": e})
            cases.append({"op": "hist", "tier": t, "args": {"steps": steps}, "scale": sc})
    # collisions are decided by exact comparison: two times one ulp apart do not collide
    elig = [c for c in cases if c["op"] == "insert" and gen.near_ok(c["tier"]["entries"], [c["args"]["e"]])]
    for c in rng.sample(elig, min(len(elig), 800 if tier == "quick" else 20000)):
        cases.append(dict(c, scale=["near", 1]))

    return cases


def run(case):
    if case["op"] in ("insert", "delete"):
        return tierops.run_single(case)
    sc = core.Scale(*case["scale"])
    kind = case["tier"]["kind"]

    def f():
        t = core.mk_tier(case["tier"], sc)
        out = []
        for st in case["args"]["steps"]:
            err = None
            try:
                with core.captured_stdout():
                    if st["op"] == "insert":
                        t.insertEntry(tierops.entry_of(kind, st["e"], sc), st["mode"], "silence")
                    else:
                        t.deleteEntry(tierops.entry_of(kind, st["e"], sc))
            except Exception as e:  # noqa
                err = core.err_kind(e)
            out.append([err, core.snap_tier(t, sc)])
        return out
    return core.run_guarded(f)


def _centry(kind, e):
    return core.cinterval(e) if kind == "I" else core.cpoint(e)


def emit(case, r):
    t, a = case["tier"], case["args"]
    I = t["kind"] == "I"
    ct = core.citier if I else core.cptier
    sfx = "I" if I else "P"
    if case["op"] == "insert":
        return "Ins%s %s %s %s %s" % (sfx, ct(t), _centry(t["kind"], a["e"]), tierops.INS[a["mode"]], core.cres(r, ct))
    if case["op"] == "delete":
        return "Del%s %s %s %s" % (sfx, ct(t), _centry(t["kind"], a["e"]), core.cres(r, ct))
    if "ok" not in r:
        return None
    items = []
    for st, (err, after) in zip(a["steps"], r["ok"]):
        if st["op"] == "insert":
            s = "(SIns%s %s %s)" % (sfx, _centry(t["kind"], st["e"]), tierops.INS[st["mode"]])
        else:
            s = "(SDel%s %s)" % (sfx, _centry(t["kind"], st["e"]))
        items.append("(%s, (%s, %s))" % (s, "None" if err is None else "Some %s" % err, ct(after)))
    return "Hist%s %s %s" % (sfx, ct(t), core.clist(items))


def model_expr(case):
    t, a = case["tier"], case["args"]
    I = t["kind"] == "I"
    ct = core.citier if I else core.cptier
    if case["op"] == "insert":
        return "%s %s %s %s" % ("insert_i" if I else "insert_p", ct(t), _centry(t["kind"], a["e"]), tierops.INS[a["mode"]])
    if case["op"] == "delete":
        return "%s %s %s" % ("delete_i" if I else "delete_p", ct(t), _centry(t["kind"], a["e"]))
    return None


def py_checks(case, r):
    if case["op"] == "hist" and "ok" not in r:
        return ["history harness failed: %r" % (r,)]
    return []


def classify(case, r):
    if case["op"] == "hist":
        return "hist/%s/%s/len%d" % (case["tier"]["kind"], case["scale"][0], len(case["args"]["steps"]))
    out = "err:" + r["err"] if "err" in r else ("offgrid" if "offgrid" in r else "ok")
    return "%s/%s/%s/%s/%s" % (case["op"], case["tier"]["kind"], case["args"].get("mode", "-"), case["scale"][0], out)


def nontrivial(case, r):
    if case["op"] == "hist":
        return len(case["args"]["steps"]) >= 2
    return bool(case["tier"]["entries"])


def shrinks(case):
    if case["op"] == "hist":
        st = case["args"]["steps"]
        for k in range(len(st)):
            c = dict(case)
            c["args"] = {"steps": st[:k] + st[k + 1:]}
            if c["args"]["steps"]:
                yield c
        for k in range(len(st) - 1, 0, -1):
            c = dict(case)
            c["args"] = {"steps": st[:k]}
            yield c
    for t2 in gen.shrink_tier(case["tier"]):
        c = dict(case)
        c["tier"] = t2
        yield c


def finding_match(case, r, kind, why, findings):
    return None
