"""C04 -- saving adds only blanks and absorbs only sub-threshold slivers."""
from fractions import Fraction
from .. import core, iogen

ID = "C04"
MODULE = "Check.IoCheck"
CASE_TYPE = "IOcase"
CORR, ORACLE, HYP = "IOcorr", "C04oracle", "IOtrue"
# (F19 repaired: nothing is excused any more; C04oracle_f19 stays in IoCheck.v as a record of what was excused)
K = 30
DEN = 2 ** K
RULE = ("random textgrids on a 2^-30 s grid mixing ordinary intervals, gaps and slivers of 1..50 ticks (threshold 1e-8 s = 10.74 "
        "ticks) at the start, middle and end of tiers, chained slivers included x minimumIntervalLength in {None, 1e-8, 2^-20, "
        "0.06} x includeBlankSpaces x min/max overrides below, equal to and above the data span; the prepared data is read back "
        "from the textgrid_json output; non-trivial = some interval tier has entries")
EXPLANATION = ("Props/C04.v proves, for the model of _fillInBlanks/_removeUltrashortIntervals/_prepTgForSaving: blank filling keeps "
               "the labelled entries verbatim and adds only empty-labelled intervals in gaps, its output is a gap-free partition of "
               "the requested span, an entry outside the requested span raises ParsingError, and with blanks off entries are only "
               "sorted.  This run compares the implementation's prepared data with the model and with a clause-by-clause oracle "
               "(partition, no sub-threshold interval, labelled long intervals kept in order, nothing invented) inside Coq.")
TRUSTED = ["models: IO/IoModel.v fill_blanks, ultra_pass1, ultra_pass2, prep_tier, prep_tg",
           "json.dumps/json.loads used to read the prepared data back (runtime library)"]
ASSUMPTIONS = ["times on the 2^-30 grid so that end-start and its comparison with the threshold are exact in binary64"]
THRS = [None, 1e-8, 2.0 ** -20, 0.06]
SLIVERS = [1, 2, 5, 10, 11, 12, 50]


def generate(tier, rng):
    cases = []
    n = 1500 if tier == "quick" else 50000
    while len(cases) < n:
        tmax = rng.choice([DEN // 4, DEN, 3 * DEN, 4000])
        g = iogen.rand_dtg(rng, tmax, sliver=SLIVERS if rng.random() < 0.8 else None)
        if rng.random() < 0.3:
            # a span that does not start at 0; far from 0 (2^22 s, still exact on this grid) a tick is ~1e-16 of the time values
            g = iogen.shift_dtg(g, rng.choice([5, 1000, DEN // 8, 2 ** 22 * DEN, 2 ** 22 * DEN]))
        blanks = rng.random() < 0.85
        mn = mx = None
        u = rng.random()
        if rng.random() < 0.06:
            # annotation that lies before 0 (a span counted from an event at time 0), written out to 0 or as it is
            g = iogen.shift_dtg(g, -(g["xmax"] + rng.choice([0, 0, 7, DEN])))
            if rng.random() < 0.6:
                cases.append({"op": "prep", "g": g, "blanks": blanks, "mn": None, "mx": rng.choice([0, 0, g["xmax"]]), "thr": rng.choice(THRS),
                              "scale": ["dyadic", K]})
                continue
        if u < 0.15:
            mn = rng.choice([0, 0, -DEN, 5, g["xmin"], g["xmin"] + tmax // 2])
        if 0.1 < u < 0.3:
            mx = rng.choice([g["xmax"], g["xmax"] + DEN, g["xmax"] - 1, g["xmin"] + tmax // 2])
        times = sorted(set(x for t in g["tiers"] for e in t["entries"] for x in e[:-1]))
        if times and rng.random() < 0.12:
            # an override that cuts through the data (a point or an interval of any tier, blank filling on or off): the save must refuse
            if rng.random() < 0.5:
                mn, mx = rng.choice(times) + rng.choice([1, 1, 7]), None
            else:
                mn, mx = None, rng.choice(times) - rng.choice([1, 1, 7])
        lo, hi = (g["xmin"] if mn is None else mn), (g["xmax"] if mx is None else mx)
        if lo >= hi:
            continue           # a requested span that is empty or runs backwards: nothing is claimed about it
        cases.append({"op": "prep", "g": g, "blanks": blanks, "mn": mn, "mx": mx, "thr": rng.choice(THRS), "scale": ["dyadic", K]})
    return cases


def run(case):
    from praatio.utilities import textgrid_io
    from praatio.data_classes.textgrid import _tgToDictionary
    sc = core.Scale(*case["scale"])

    def f():
        tg = iogen.build_tg(case["g"], sc.f)
        mn = None if case["mn"] is None else sc.f(case["mn"])
        mx = None if case["mx"] is None else sc.f(case["mx"])
        txt = iogen.save_via(tg, "textgrid_json", case["blanks"], mn, mx, case["thr"])
        # a save does not depend on earlier saves of the same object (e.g. one with the other blank-filling setting)
        try:
            textgrid_io.getTextgridAsStr(_tgToDictionary(tg), "textgrid_json", not case["blanks"], None, None, None)
        except Exception:  # noqa
            pass
        again = iogen.save_via(tg, "textgrid_json", case["blanks"], mn, mx, case["thr"])
        if again != txt:
            raise core.OffGrid("saving the same textgrid again (after a save with the other includeBlankSpaces setting) wrote different data")
        # all four formats carry the same prepared data and the same (possibly overridden) span
        ref = iogen.content_of_tgjson(txt)
        for fmt, dec in (("json", iogen.content_of_json), ("short_textgrid", iogen.content_of_text), ("long_textgrid", iogen.content_of_text)):
            c = dec(iogen.save_via(tg, fmt, case["blanks"], mn, mx, case["thr"]))
            if not (_same_time(ref["xmin"], c["xmin"]) and _same_time(ref["xmax"], c["xmax"])):
                raise core.OffGrid("%s file spans %r but textgrid_json %r for the same save" % (fmt, (c["xmin"], c["xmax"]), (ref["xmin"], ref["xmax"])))
            if not _same_tiers(ref["tiers"], c["tiers"]):
                raise core.OffGrid("%s file holds other entries than textgrid_json for the same save" % fmt)
        return iogen.dtg_from_json(txt, lambda x: core.tk(x, sc))
    return core.run_guarded(f)


def _same_time(a, b):
    """a: the time in the textgrid_json file (binary64, exact); b: the time in another format.  The text formats write a
    time within 1e-14 (relative) of an integer as that integer (C01 states the exemption)"""
    return a == b or (b == int(b) and iogen.isclose14(a, b))


def _same_tiers(ref, other):
    if [(t["name"], len(t["entries"])) for t in ref] != [(t["name"], len(t["entries"])) for t in other]:
        return False
    for t, u in zip(ref, other):
        for e, f in zip(t["entries"], u["entries"]):
            if e[-1] != f[-1] or not all(_same_time(x, y) for x, y in zip(e[:-1], f[:-1])):
                return False
    return True


def emit(case, r):
    thr = iogen.thr_fraction(case["thr"], DEN)
    return "PrepTg %s %s %s %s %s %s" % (core.cbool(case["blanks"]), iogen.coptz(case["mn"]), iogen.coptz(case["mx"]),
                                         iogen.cthr(thr), iogen.cdtg(case["g"]), core.cres(r, iogen.cdtg))


def model_expr(case):
    thr = iogen.thr_fraction(case["thr"], DEN)
    return "prep_tg %s %s %s %s %s" % (core.cbool(case["blanks"]), iogen.coptz(case["mn"]), iogen.coptz(case["mx"]),
                                       iogen.cthr(thr), iogen.cdtg(case["g"]))


def py_checks(case, r):
    return []


def classify(case, r):
    out = "err:" + r["err"] if "err" in r else ("offgrid" if "offgrid" in r else "ok")
    return "prep/blanks=%s/thr=%s/mn=%s/mx=%s/%s" % (case["blanks"], case["thr"], "set" if case["mn"] is not None else "-",
                                                     "set" if case["mx"] is not None else "-", out)


def nontrivial(case, r):
    return any(t["isint"] and t["entries"] for t in case["g"]["tiers"])


def shrinks(case):
    g = case["g"]
    for k in range(len(g["tiers"])):
        if len(g["tiers"]) > 1:
            c = dict(case)
            c["g"] = dict(g, tiers=g["tiers"][:k] + g["tiers"][k + 1:])
            yield c
    for k, t in enumerate(g["tiers"]):
        for j in range(len(t["entries"])):
            t2 = dict(t, entries=t["entries"][:j] + t["entries"][j + 1:])
            c = dict(case)
            c["g"] = dict(g, tiers=g["tiers"][:k] + [t2] + g["tiers"][k + 1:])
            yield c


def _filled_lengths(t, mn, mx):
    """lengths of the intervals of tier t after blank filling over [mn, mx]"""
    ents = sorted(t["entries"])
    if not ents:
        return [mx - mn]
    out, prev = [], mn
    for s, e, _ in ents:
        if s > prev:
            out.append(s - prev)
        out.append(e - s)
        prev = e
    if mx > prev:
        out.append(mx - prev)
    return out


def finding_match(case, r, kind, why, findings):
    # a known finding covers one kind of failure only: the clause-by-clause oracle saying "not a partition"
    if not why.startswith("oracle"):
        return None
    for f in findings:
        m = f.get("matcher", {})
        if m.get("pred") == "all_intervals_below_threshold" and case["thr"] is not None and case["blanks"]:
            g = case["g"]
            mn = case["mn"] if case["mn"] is not None else g["xmin"]
            mx = case["mx"] if case["mx"] is not None else g["xmax"]
            thr = iogen.thr_fraction(case["thr"], DEN)
            for t in g["tiers"]:
                if t["isint"] and all(x < thr for x in _filled_lengths(t, mn, mx)):
                    return f["id"]
        if m.get("pred") == "override_outside_not_enforced":
            g = case["g"]
            mn = case["mn"] if case["mn"] is not None else g["xmin"]
            mx = case["mx"] if case["mx"] is not None else g["xmax"]
            for t in g["tiers"]:
                if (not t["isint"]) or not case["blanks"]:
                    if any(e[0] < mn or e[-2] > mx for e in t["entries"]):
                        return f["id"]
    return None
