"""C13 -- copy-returning operations never mutate; failed mutations change nothing; a failing save leaves the file alone."""
import os
import shutil
from .. import core, gen, tgops, tierops
from . import c05, c12

ID = "C13"
MODULE = "Check.C12Check"
CASE_TYPE = "C12case"
CORR, ORACLE, HYP = "C12corr", "C13oracle", "C12hyp"
RULE = ("(a) mutator histories on Textgrid objects biased towards failing calls (name clash, span change under 'error', missing "
        "tier), state compared after every call; (b) single insertEntry/deleteEntry calls on wf tiers incl. collisions in error mode "
        "and absent entries; (c) invalid option values for every mutator; (d) monitor: bit-exact snapshot (names, order, entries as "
        "float.hex, spans) of receiver and every argument before and after each copy-returning operation, query, validate and "
        "save-to-string, on success and exception paths; (e) failing saves onto a pre-existing file (invalid format, failing "
        "overrides, invalid textgrid under reportingMode='error'); non-trivial = the call touched a non-empty object")
EXPLANATION = ("Props/C13.v proves that the Textgrid mutators are all-or-nothing on every state satisfying the invariant (including "
               "replaceTier's rollback) -- theorems about a model that follows the source's order of checks and writes.  The clause "
               "'copy-returning operations leave receiver and arguments unchanged' is about Python object identity and aliasing, which "
               "a functional model cannot exhibit: it is decided here by monitoring the real objects (evaluation, not proof), as is "
               "the clause about the destination file of a failing save.")
TRUSTED = ["models: Textgrid/TgModel.v step machines; Tier/TierOps.v run_opI/run_opP for tier mutators",
           "partial: the non-mutation and file clauses are monitored on the implementation, not proved"]
ASSUMPTIONS = ["snapshots compare names, order, entries (float.hex), spans -- the observable state named by the property"]
WORK = os.path.join(core.VERIF, ".work")


def generate(tier, rng):
    cases = []
    # (a) textgrid mutator histories
    for c in c12.generate(tier, rng):
        if c["op"] == "tghist":
            cases.append(c)
    # (b) tier-level mutators
    for _ in range(1500 if tier == "quick" else 40000):
        kind = "I" if rng.random() < 0.7 else "P"
        t = gen.random_itier(rng, tmax=30, maxn=5, long_p=0.015) if kind == "I" else gen.random_ptier(rng, tmax=30, maxn=5, long_p=0.015)
        if rng.random() < 0.6:
            if kind == "I":
                if t["entries"] and rng.random() < 0.7:
                    e0 = rng.choice(t["entries"])
                    e = [e0[0] + rng.choice([-1, 0, 1]), e0[1] + rng.choice([-1, 0, 1]), "n"]
                    if e[0] >= e[1]:
                        e[1] = e[0] + 1
                else:
                    s = rng.randint(0, 30)
                    e = [s, s + rng.randint(0, 5), "n"]
            else:
                e = [rng.choice(t["entries"])[0] if t["entries"] and rng.random() < 0.7 else rng.randint(0, 31), "n"]
            o = {"op": "insert", "e": e, "mode": rng.choice(["error", "error", "replace", "merge"])}
        else:
            if t["entries"] and rng.random() < 0.5:
                e = list(rng.choice(t["entries"]))
            else:
                e = [1, 2, "zz"] if kind == "I" else [1, "zz"]
            o = {"op": "delete", "e": e}
        cases.append({"op": "tiercall", "tier": t, "args": {"o": o}, "scale": list(rng.choice(gen.SCALES_DYADIC))})
    # (c) invalid options, (d) monitor, (e) failing saves: python-level
    for _ in range(150 if tier == "quick" else 3000):
        cases.append({"op": "badoption", "seed": rng.randint(0, 10**9), "scale": ["dyadic", 1]})
    for _ in range(1200 if tier == "quick" else 30000):
        cases.append({"op": "monitor", "seed": rng.randint(0, 10**9), "scale": gen.pick_scale(rng)})
    for _ in range(150 if tier == "quick" else 3000):
        cases.append({"op": "failsave", "seed": rng.randint(0, 10**9), "scale": ["dyadic", 1]})
    return cases


# ---------------------------------------------------------------- python-level parts

def _raw_tg(tg):
    return (tuple(tg.tierNames), tuple(core.raw_tier(t) for t in tg.tiers),
            None if tg.minTimestamp is None else float(tg.minTimestamp).hex(),
            None if tg.maxTimestamp is None else float(tg.maxTimestamp).hex())


def _rand_tg(rng, sc, n=None):
    from praatio.data_classes.textgrid import Textgrid
    tg = Textgrid()
    specs = []
    for k in range(n if n is not None else rng.randint(1, 4)):
        t = gen.random_itier(rng, name="i%d" % k, tmax=30, maxn=4) if rng.random() < 0.6 else gen.random_ptier(rng, name="p%d" % k, tmax=30, maxn=4)
        t["min"], t["max"] = 0, 30
        specs.append(t)
        tg.addTier(core.mk_tier(t, sc))
    return tg, specs


def _run_badoption(case):
    import random
    rng = random.Random(case["seed"])
    sc = core.Scale(*case["scale"])
    fails = []
    tg, specs = _rand_tg(rng, sc, 2)
    t = tg.tiers[0]
    other = core.mk_tier(specs[1], sc)
    calls = [
        ("insertEntry(collisionMode=bogus)", t, lambda: t.insertEntry((1.0, 2.0, "x") if specs[0]["kind"] == "I" else (1.0, "x"), "bogus", "silence")),
        ("insertEntry(collisionReportingMode=bogus)", t, lambda: t.insertEntry((1.0, 2.0, "x") if specs[0]["kind"] == "I" else (1.0, "x"), "replace", "bogus")),
        ("addTier(reportingMode=bogus)", tg, lambda: tg.addTier(core.mk_tier(dict(specs[1], name="zz"), sc), reportingMode="bogus")),
        ("editTimestamps(reportingMode=bogus)", t, lambda: t.editTimestamps(1.0, "bogus")),
        ("crop(mode=bogus)", t, lambda: t.crop(0.0, 5.0, "bogus", False)),
        ("eraseRegion(collisionMode=bogus)", t, lambda: t.eraseRegion(1.0, 2.0, "bogus", True)) if specs[0]["kind"] == "I" else None,
        ("insertSpace(collisionMode=bogus)", t, lambda: t.insertSpace(1.0, 2.0, "bogus")) if specs[0]["kind"] == "I" else None,
        ("tg.crop(mode=bogus)", tg, lambda: tg.crop(0.0, 5.0, "bogus", False)),
        ("tg.insertSpace(collisionMode=bogus)", tg, lambda: tg.insertSpace(1.0, 2.0, "bogus")),
        ("tg.validate(bogus)", tg, lambda: tg.validate("bogus")),
        ("replaceTier(reportingMode=bogus)", tg, lambda: tg.replaceTier(tg.tierNames[0], core.mk_tier(dict(specs[1], name="zz"), sc), "bogus")),
        ("replaceTier(same name, reportingMode=bogus)", tg, lambda: tg.replaceTier(tg.tierNames[-1], core.mk_tier(dict(specs[1], name=tg.tierNames[-1]), sc), "bogus")),
        ("tg.editTimestamps(reportingMode=bogus)", tg, lambda: tg.editTimestamps(1.0, "bogus")),
        ("tg.save(format=bogus)", tg, lambda: tg.save(os.path.join(core.VERIF, ".work", "never-written.TextGrid"), "bogus", True)),
        ("tg.save(reportingMode=bogus)", tg, lambda: tg.save(os.path.join(core.VERIF, ".work", "never-written.TextGrid"), "short_textgrid", True, reportingMode="bogus")),
        ("renameTier(missing)", tg, lambda: tg.renameTier("no-such-tier", "zz")),
        ("removeTier(missing)", tg, lambda: tg.removeTier("no-such-tier")),
    ]
    for c in calls:
        if c is None:
            continue
        what, obj, fn = c
        before = _raw_tg(tg)
        raised = False
        try:
            with core.captured_stdout():
                fn()
        except Exception:  # noqa
            raised = True
        # the property only says: IF the call fails, nothing changed (it does not say which calls must fail)
        if raised and _raw_tg(tg) != before:
            fails.append("%s changed the object although it raised" % what)
    return fails


def _run_monitor(case):
    import random
    rng = random.Random(case["seed"])
    gen.reseed_long(case["seed"])
    sc = core.Scale(*case["scale"])
    fails = []
    if rng.random() < 0.6:
        kind = "I" if rng.random() < 0.7 else "P"
        forms = rng.random() < 0.3
        lp = 0.3 if forms else 0.05
        spec = gen.random_itier(rng, tmax=40, maxn=5, long_p=lp) if kind == "I" else gen.random_ptier(rng, tmax=40, maxn=5, long_p=lp)
        tier = core.mk_tier(spec, sc)
        cur = core.snap_tier(tier, sc)
        if forms:
            return _copy_forms(rng, tier, kind)
        o = c05._gen_op(rng, kind, cur, 40)
        while o["op"] in ("insert", "delete", "construct"):
            o = c05._gen_op(rng, kind, cur, 40)
        args = {}
        for key in ("other", "ref", "target"):
            if key in o:
                args[key] = core.mk_tier(o[key], sc)
        before = core.raw_tier(tier)
        before_args = {k: core.raw_tier(v) for k, v in args.items()}
        try:
            with core.captured_stdout():
                name = o["op"]
                if name in ("union", "difference", "intersection", "mergeLabels", "append"):
                    meth = {"append": "appendTier"}.get(name, name)
                    res = getattr(tier, meth)(args["other"])
                elif name == "dejitter":
                    res = tier.dejitter(args["ref"], sc.f(o["d"]))
                elif name == "morph":
                    keep = None if o["filter"] is None else set(o["filter"])
                    res = tier.morph(args["target"], None if keep is None else (lambda lab: lab in keep))
                else:
                    res = tierops.apply_op(tier, name, o, sc, kind)
                # what came back is a tier of its own: editing it is not editing the receiver or an argument
                if res is not None and res is not tier and hasattr(res, "deleteEntry"):
                    if len(res.entries):
                        res.deleteEntry(res.entries[0])
                    far = float(res.maxTimestamp) + 1.0
                    res.insertEntry((far, far + 1.0, "zz") if kind == "I" else (far, "zz"), "replace", "silence")
                # queries
                tier.find("a")
                tier.find("a", substrMatchFlag=True)
                _ = tier.timestamps
                tier.validate("silence")
                if kind == "I":
                    tier.getValuesInIntervals([(1.0, 2), (3.0, 4)])
                    if len(tier.entries):
                        tier.getNonEntries()
                else:
                    tier.getValuesAtPoints([(1.0, 2), (3.0, 4)], True) if len(tier.entries) else None
                _ = tier == tier.new()
        except Exception:  # noqa
            pass
        if core.raw_tier(tier) != before:
            fails.append("receiver changed by %s" % o["op"])
        for k, v in args.items():
            if core.raw_tier(v) != before_args[k]:
                fails.append("argument %s changed by %s" % (k, o["op"]))
        return fails, o["op"]
    tg, specs = _rand_tg(rng, sc)
    tg2, _ = _rand_tg(rng, sc)
    before, before2 = _raw_tg(tg), _raw_tg(tg2)
    a, b = sorted((rng.randint(0, 30), rng.randint(0, 30)))
    which = rng.choice(["crop", "erase", "space", "edit", "appendtg", "merge", "new", "savestr", "validate", "eq"])
    try:
        with core.captured_stdout():
            if which == "crop":
                tg.crop(sc.f(a), sc.f(b), rng.choice(["strict", "lax", "truncated"]), rng.random() < 0.5)
            elif which == "erase":
                tg.eraseRegion(sc.f(a), sc.f(b), rng.random() < 0.5)
            elif which == "space":
                tg.insertSpace(sc.f(a), sc.f(1 + b), rng.choice(["stretch", "split", "no_change", "error"]))
            elif which == "edit":
                tg.editTimestamps(sc.f(rng.randint(-20, 20)), rng.choice(["silence", "warning", "error"]))
            elif which == "appendtg":
                tg.appendTextgrid(tg2, rng.random() < 0.5)
            elif which == "merge":
                tg.mergeTiers(None if rng.random() < 0.5 else list(tg.tierNames)[:2], rng.random() < 0.5)
            elif which == "new":
                tg.new()
            elif which == "savestr":
                from praatio.utilities import textgrid_io
                from praatio.data_classes.textgrid import _tgToDictionary
                textgrid_io.getTextgridAsStr(_tgToDictionary(tg), rng.choice(["short_textgrid", "long_textgrid", "json", "textgrid_json"]),
                                             rng.random() < 0.5, None, None, rng.choice([None, 1e-8, 0.06]))
            elif which == "validate":
                tg.validate("silence")
            else:
                _ = tg == tg2
    except Exception:  # noqa
        pass
    if _raw_tg(tg) != before:
        fails.append("receiver textgrid changed by %s" % which)
    if _raw_tg(tg2) != before2:
        fails.append("argument textgrid changed by %s" % which)
    return fails, "tg." + which


def _copy_forms(rng, tier, kind):
    """the ways of getting a copy of a tier: new() alone, with another name, with an entry list, the constructor on an
    entry list.  The list handed over stays as it was, and copy and source can be edited independently afterwards."""
    fails = []
    form = rng.choice(["new", "new_name", "new_name_pos", "new_entries", "ctor"])
    lst = list(tier.entries)
    if rng.random() < 0.5:
        rng.shuffle(lst)
    lst_before = list(lst)
    before = core.raw_tier(tier)
    try:
        with core.captured_stdout():
            if form == "new":
                res = tier.new()
            elif form == "new_name":
                res = tier.new(name="x")
            elif form == "new_name_pos":
                res = tier.new("x")
            elif form == "new_entries":
                res = tier.new(entries=lst)
            else:
                res = type(tier)(tier.name, lst, tier.minTimestamp, tier.maxTimestamp)
    except Exception as e:  # noqa
        return ["%s raised %s" % (form, type(e).__name__)], "copy/" + form
    if lst != lst_before or any(x is not y for x, y in zip(lst, lst_before)):
        fails.append("the entry list handed to %s was reordered or changed" % form)
    if core.raw_tier(tier) != before:
        fails.append("receiver changed by %s" % form)
    with core.captured_stdout():
        if len(res.entries):
            res.deleteEntry(res.entries[-1])
        far = float(res.maxTimestamp) + 1.0
        res.insertEntry((far, far + 1.0, "zz") if kind == "I" else (far, "zz"), "replace", "silence")
    if core.raw_tier(tier) != before:
        fails.append("editing the tier returned by %s changed the source tier" % form)
    if lst != lst_before:
        fails.append("editing the tier returned by %s changed the entry list it was built from" % form)
    after = core.raw_tier(res)
    with core.captured_stdout():
        if len(tier.entries):
            tier.deleteEntry(tier.entries[0])
        far = float(tier.maxTimestamp) + 3.0
        tier.insertEntry((far, far + 1.0, "yy") if kind == "I" else (far, "yy"), "replace", "silence")
    if core.raw_tier(res) != after:
        fails.append("editing the source tier changed the tier %s had returned" % form)
    return fails, "copy/" + form


def _run_failsave(case):
    import random
    rng = random.Random(case["seed"])
    sc = core.Scale(*case["scale"])
    d = os.path.join(WORK, "c13save.%d" % os.getpid())
    os.makedirs(d, exist_ok=True)
    fn = core.fname(os.path.join(d, "out.TextGrid"))
    fails = []
    try:
        tg, specs = _rand_tg(rng, sc)
        content = b"PRE-EXISTING \xe2\x98\x83 content\n" * rng.randint(1, 3)
        with open(fn, "wb") as fh:
            fh.write(content)
        which = rng.choice(["format", "override_min", "override_max", "invalid_tg", "reporting"])
        try:
            with core.captured_stdout():
                if which == "format":
                    tg.save(fn, "bogus_format", True)
                elif which == "override_min":
                    tg.save(fn, rng.choice(["short_textgrid", "long_textgrid", "json", "textgrid_json"]), True, minTimestamp=sc.f(31))
                elif which == "override_max":
                    tg.save(fn, rng.choice(["short_textgrid", "long_textgrid"]), True, maxTimestamp=-1.0)
                elif which == "invalid_tg":
                    tg.maxTimestamp = tg.maxTimestamp + 1      # tiers no longer share the span
                    tg.save(fn, "short_textgrid", True, reportingMode="error")
                else:
                    tg.save(fn, "short_textgrid", True, reportingMode="bogus")
            raised = False
        except Exception:  # noqa
            raised = True
        with open(fn, "rb") as fh:
            now = fh.read()
        if raised and now != content:
            fails.append("save(%s) raised but the destination file was modified" % which)
        return fails, which + ("/raised" if raised else "/saved")
    finally:
        shutil.rmtree(d, ignore_errors=True)


def run(case):
    op = case["op"]
    if op == "tghist":
        return c12.run(case)
    sc = core.Scale(*case["scale"])
    if op == "tiercall":
        kind = case["tier"]["kind"]

        def f():
            t = core.mk_tier(case["tier"], sc)
            o = case["args"]["o"]
            err = None
            try:
                with core.captured_stdout():
                    tierops.apply_op(t, o["op"], o, sc, kind)
            except Exception as e:  # noqa
                err = core.err_kind(e)
            return {"err": err, "after": core.snap_tier(t, sc)}
        return core.run_guarded(f)
    if op == "badoption":
        return {"ok": {"fails": _run_badoption(case), "what": "badoption"}, "printed": False}
    if op == "monitor":
        fails, what = _run_monitor(case)
        return {"ok": {"fails": fails, "what": what}, "printed": False}
    fails, what = _run_failsave(case)
    return {"ok": {"fails": fails, "what": what}, "printed": False}


def emit(case, r):
    op = case["op"]
    if op == "tghist":
        return c12.emit(case, r)
    if op != "tiercall" or "ok" not in r:
        return None
    t = case["tier"]
    I = t["kind"] == "I"
    ct = core.citier if I else core.cptier
    v = r["ok"]
    return "TierCall%s %s %s %s %s" % ("I" if I else "P", ct(t), c05._cop(t["kind"], case["args"]["o"]),
                                       "None" if v["err"] is None else "(Some %s)" % v["err"], ct(v["after"]))


def model_expr(case):
    return None


def py_checks(case, r):
    if case["op"] in ("badoption", "monitor", "failsave"):
        return list(r["ok"]["fails"])
    if "ok" not in r:
        return ["harness failed: %r" % (r,)]
    return []


def classify(case, r):
    op = case["op"]
    if op in ("badoption", "monitor", "failsave"):
        return "%s/%s" % (op, r["ok"]["what"])
    if op == "tiercall":
        return "tiercall/%s/%s/%s" % (case["tier"]["kind"], case["args"]["o"]["op"], r.get("ok", {}).get("err"))
    return c12.classify(case, r)


def nontrivial(case, r):
    if case["op"] == "tiercall":
        return bool(case["tier"]["entries"])
    if case["op"] == "tghist":
        return len(case["args"]["ops"]) >= 2
    return True


def shrinks(case):
    if case["op"] == "tghist":
        for c in c12.shrinks(case):
            yield c


def finding_match(case, r, kind, why, findings):
    return None
