"""C20 -- numeric series helpers match their textbook definitions."""
import math
import os
import shutil
from fractions import Fraction
from .. import core

ID = "C20"
MODULE = "Check.C20Check"
CASE_TYPE = "C20case"
CORR, ORACLE, HYP = "C20corr", "C20oracle", "C20true"
RULE = ("series of length 0..15 over small integers and halves (ties and constant runs frequent) x window 0..8 x padding for "
        "medianFilter and filterTimeSeriesData (rows of 3 columns); pitch tracks of 0..12 dyadic values x thresholds 1/4, 1/2, 3/4, 1 "
        "and out-of-range ones for detectPitchErrors; listings with / without header, undefined markers in any column, "
        "undefinedValue in {None, 0, 0.0, -1.5}, written to real files for loadTimeSeriesData; random float series for "
        "znormalizeData, rms and getPitchMeasures (x median window x zero removal) judged against exact rational arithmetic; "
        "non-trivial = the series has >= 3 elements")
EXPLANATION = ("Props/C20.v proves for any element type and filter function that the windowed filter keeps the length, that element "
               "x is the function of its window when padding is on or the window fits and is unchanged otherwise, that the window "
               "is element x with its floor(window/2) neighbours on either side of the edge-extended series (the source's index "
               "bookkeeping is edge clamping), that the window's median is the middle of the sorted window; that "
               "filterTimeSeriesData keeps rows, order and the other columns; the detectPitchErrors criterion; the listing-row "
               "clauses; and over the reals that z-normalisation keeps length and rank order and yields mean 0 and sample "
               "standard deviation 1, and that rms / population deviation are the non-negative roots of their definitions.  The "
               "integer-valued functions are compared with the models and with the definitions inside Coq; the real-valued ones "
               "are judged against exact rational arithmetic with a 1e-9 relative tolerance.")
TRUSTED = ["models: Series/SeriesModel.v step_filter (with lastKnownLargeIndex), detect_errors, load_rows, filter_rows",
           "statistics.median/mean/stdev, math.sqrt, float arithmetic (runtime): the real-valued clauses are proved over Coq's reals and "
           "evaluated on binary64 with a relative tolerance of 1e-9",
           "Props/C20.v z-normalisation / rms / deviation theorems depend on the standard library's real-number axioms "
           "(ClassicalDedekindReals.sig_forall_dec, sig_not_dec, FunctionalExtensionality.functional_extensionality_dep)"]
ASSUMPTIONS = ["median filtering is compared on values that are multiples of 1/2 (exact in binary64)",
               "zero removal in getPitchMeasures is judged on tracks whose non-zero values have magnitude >= 1 (the code tests int(v) != 0)"]


def _series(rng, n):
    base = rng.choice([[0, 1, 2], [1, 1, 1, 9, 5, 2, 4, 7], list(range(-6, 7)), [3]])
    return [rng.choice(base) + (rng.choice([0, 0, 1]) if rng.random() < 0.3 else 0) for _ in range(n)]


def generate(tier, rng):
    cases = []
    for _ in range(900 if tier == "quick" else 30000):
        n = rng.randint(0, 15)
        dist = _series(rng, n)
        half = rng.random() < 0.3
        cases.append({"op": "median", "dist": dist, "half": half, "w": rng.randint(0, 8), "pad": rng.random() < 0.5, "scale": ["int", 0]})
    for _ in range(300 if tier == "quick" else 8000):
        n = rng.randint(0, 10)
        rows = [[k, rng.randint(-5, 5), rng.randint(0, 9)] for k in range(n)]
        cases.append({"op": "frows", "rows": rows, "index": rng.choice([1, 2]), "w": rng.randint(0, 6), "pad": rng.random() < 0.5,
                      "dist": rows, "scale": ["int", 0]})
    for _ in range(500 if tier == "quick" else 15000):
        n = rng.randint(0, 12)
        p = [rng.choice([64, 96, 100, 128, 192, 200, 256, 50, 400]) for _ in range(n)]
        tn, td = rng.choice([(1, 4), (1, 2), (3, 4), (1, 1), (7, 10), (5, 4), (-1, 4), (1, 8)])
        cases.append({"op": "detect", "dist": p, "tn": tn, "td": td, "scale": ["int", 0]})
    for _ in range(300 if tier == "quick" else 8000):
        nrows = rng.randint(0 if rng.random() < 0.05 else 1, 8)
        ncol = rng.randint(1, 3)
        rows = []
        t0 = rng.choice([0.0, 0.0, -0.02, 5e-05, 1e-05, 3.0, 1e+16])      # a listing need not start at a plain non-negative time
        for k in range(nrows):
            rows.append([repr(t0 + k * 0.01)] + [("--undefined--" if rng.random() < 0.2 else repr(rng.choice([0.0, 1.5, 120.25, -3.0, 77.0]))) for _ in range(ncol)])
        header = rng.random() < 0.5
        cases.append({"op": "listing", "rows": rows, "header": header, "ncol": ncol, "subst": rng.choice([None, None, 0, 0.0, -1.5]),
                      "dist": rows, "scale": ["int", 0]})
    # a listing as long as a real recording's (tens of thousands of fixed-width rows, more than a megabyte of text)
    for _ in range(1 if tier == "quick" else 8):
        cases.append({"op": "biglisting", "nrows": rng.randint(33000, 45000), "wide": rng.random() < 0.3, "header": rng.random() < 0.3,
                      "dist": [1], "scale": ["int", 0]})
    for _ in range(500 if tier == "quick" else 15000):
        n = rng.randint(0, 15)
        kind = rng.choice(["float", "int", "pitch", "const", "offset"])
        if kind == "const":
            v = [rng.choice([220.3, 0.1, 100.1, 75.0, 1e-3])] * n                 # a constant run: deviation exactly 0
        elif kind == "offset":
            base = rng.choice([1000000.0, 123456.7, 1e8])
            v = [base + rng.choice([0.1, 0.2, 0.3, 0.7]) for _ in range(n)]        # small spread on a large level
        elif kind == "float":
            v = [rng.uniform(-100, 100) for _ in range(n)]
        elif kind == "int":
            v = [float(rng.randint(-5, 5)) for _ in range(n)]
        else:
            v = [rng.choice([0.0, 0.0, rng.uniform(75, 400)]) for _ in range(n)]
        cases.append({"op": "stats", "dist": v, "w": rng.choice([None, None, 3, 4, 5]), "zero": rng.random() < 0.5, "scale": ["float", 0]})
    # z-normalisation within a sliding window, and of one column of a table of rows
    for _ in range(300 if tier == "quick" else 8000):
        n = rng.randint(0, 12)
        v = [float(rng.choice([0, 0, rng.randint(1, 40)])) if rng.random() < 0.5 else float(rng.randint(1, 60)) for _ in range(n)]
        cases.append({"op": "znwin", "dist": v, "w": rng.randint(0, 7), "pad": rng.random() < 0.5, "zero": rng.random() < 0.4,
                      "scale": ["float", 0]})
    for _ in range(200 if tier == "quick" else 5000):
        n = rng.randint(2, 9)
        rows = [[float(k), float(rng.randint(-6, 30)), float(rng.randint(0, 9))] for k in range(n)]
        cases.append({"op": "znspk", "rows": rows, "index": rng.choice([1, 2]), "zero": rng.random() < 0.4, "dist": rows,
                      "scale": ["float", 0]})
    return cases


def run(case):
    from praatio.utilities import my_math
    from praatio import pitch_and_intensity as pi
    op = case["op"]
    if op == "median":
        k = 0.5 if case["half"] else 1.0

        def f():
            out = my_math.medianFilter([x * k for x in case["dist"]], case["w"], case["pad"])
            res = []
            for x in out:
                y = x / k
                if y != int(y):
                    raise core.OffGrid("median %r is not a value of the series" % x)
                res.append(int(y))
            return res
        return core.run_guarded(f)
    if op == "frows":
        def g():
            out = my_math.filterTimeSeriesData(my_math.medianFilter, [tuple(r) for r in case["rows"]], case["w"], case["index"], case["pad"])
            return [[int(x) for x in r] for r in out]
        return core.run_guarded(g)
    if op == "detect":
        def h():
            # rows as extractPI / loadTimeSeriesData return them: (time, pitch) or (time, pitch, intensity, ...), tuples or lists
            k = len(case["dist"]) % 3
            pl = [(float(i), float(v)) + (60.0, 1.0)[:k] for i, v in enumerate(case["dist"])]
            if sum(case["dist"]) % 2:
                pl = [list(r) for r in pl]
            errs, _ = pi.detectPitchErrors(pl, case["tn"] / case["td"], None)
            return {"idx": [int(e.time) for e in errs], "labels": [e.label for e in errs]}
        return core.run_guarded(h)
    if op == "biglisting":
        d = os.path.join(core.VERIF, ".work", "c20b.%d" % os.getpid())
        os.makedirs(d, exist_ok=True)
        fn = core.fname(os.path.join(d, "big.txt"))
        try:
            def bq():
                fmt = "%012.5f,%09.4f,%08.3f\n" if not case["wide"] else "%012.5f,%09.4f,%08.3f,%014.7f,%016.9f\n"
                rows = [(k * 0.005, 100.0 + (k * 37 % 1000) / 8.0, 60.0 + (k % 64) / 4.0, k / 7.0, k / 3.0)[:5 if case["wide"] else 3]
                        for k in range(case["nrows"])]
                with open(fn, "w", encoding="utf-8") as fh:
                    if case["header"]:
                        fh.write("time,pitch,intensity" + (",a,b" if case["wide"] else "") + "\n")
                    fh.write("".join(fmt % r for r in rows))
                out = pi.loadTimeSeriesData(fn, None)
                want = [tuple(float(x) for x in (fmt % r).strip().split(",")) for r in rows]
                if len(out) != len(want):
                    return {"rows": len(out), "want": len(want), "first_bad": None}
                bad = next((k for k, (a, b) in enumerate(zip(out, want)) if tuple(float(x) for x in a) != b), None)
                return {"rows": len(out), "want": len(want), "first_bad": bad}
            return core.run_guarded(bq)
        finally:
            shutil.rmtree(d, ignore_errors=True)
    if op == "listing":
        d = os.path.join(core.VERIF, ".work", "c20.%d" % os.getpid())
        os.makedirs(d, exist_ok=True)
        fn = core.fname(os.path.join(d, "listing.txt"))
        try:
            def q():
                lines = []
                if case["header"]:
                    lines.append(",".join(["time"] + ["v%d" % k for k in range(case["ncol"])]))
                for r in case["rows"]:
                    lines.append(",".join(r))
                text = "\n".join(lines) + ("\n" if lines else "")
                # the path held another listing a moment ago (same length, same time stamp -- a copy made with cp -p, an
                # export overwritten within one clock tick) and that one was loaded too: what counts is the file as it is now
                earlier = text.translate(str.maketrans("1234", "2143"))
                if earlier != text and len(text) % 3 == 0:
                    with open(fn, "w", encoding="utf-8") as fh:
                        fh.write(earlier)
                    st = os.stat(fn)
                    try:
                        pi.loadTimeSeriesData(fn, case["subst"])
                    except Exception:  # noqa
                        pass
                    with open(fn, "w", encoding="utf-8") as fh:
                        fh.write(text)
                    os.utime(fn, ns=(st.st_atime_ns, st.st_mtime_ns))
                else:
                    with open(fn, "w", encoding="utf-8") as fh:
                        fh.write(text)
                out = pi.loadTimeSeriesData(fn, case["subst"])
                return [[repr(float(x)) for x in row] for row in out]
            return core.run_guarded(q)
        finally:
            shutil.rmtree(d, ignore_errors=True)
    if op == "stats":
        def s():
            v = case["dist"]
            out = {}
            with core.captured_stdout():
                out["pm"] = list(pi.getPitchMeasures(list(v), None, None, case["w"], case["zero"]))
            if v:
                out["rms"] = my_math.rms(list(v))
            if len(v) >= 2 and len(set(v)) > 1:
                out["z"] = my_math.znormalizeData(list(v))
            return out
        return core.run_guarded(s)
    if op == "znwin":
        def zw():
            return [float(x) for x in my_math.znormWindowFilter(list(case["dist"]), case["w"], case["pad"], case["zero"])]
        return core.run_guarded(zw)
    if op == "znspk":
        def zs():
            out = my_math.znormalizeSpeakerData([tuple(r) for r in case["rows"]], case["index"], case["zero"])
            return [[float(x) for x in r] for r in out]
        return core.run_guarded(zs)
    raise ValueError(op)


def czl(l):
    return core.clist([core.cz(x) for x in l], "Z")


def crows_t(rows):
    return core.clist([core.clist([core.ctext(c) for c in r], "text") for r in rows], "(list text)")


def emit(case, r):
    op = case["op"]
    if op == "median":
        if "ok" not in r:
            return None
        return "Median %s %d%%nat %s %s" % (czl(case["dist"]), case["w"], core.cbool(case["pad"]), czl(r["ok"]))
    if op == "frows":
        if "ok" not in r:
            return None
        return "FilterRows %s %d%%nat %d%%nat %s %s" % (core.clist([czl(x) for x in case["rows"]], "(list Z)"), case["index"], case["w"],
                                                        core.cbool(case["pad"]), core.clist([czl(x) for x in r["ok"]], "(list Z)"))
    if op == "detect":
        out = "(Ok %s)" % core.clist(["%d%%nat" % k for k in r["ok"]["idx"]], "nat") if "ok" in r else "(Err %s)" % r["err"]
        return "Detect %s %s %s %s" % (czl(case["dist"]), core.cz(case["tn"]), core.cz(case["td"]), out)
    if op == "listing":
        rows = ([["time"] + ["v%d" % k for k in range(case["ncol"])]] if case["header"] else []) + case["rows"]
        # cells are canonicalised to repr(float(cell)) on both sides; undefined cells stay as they are for the model
        canon = [[(c if "--" in c or not _isnum(c) else repr(float(c))) for c in row] for row in rows]
        subst = "None" if case["subst"] is None else "(Some %s)" % core.ctext(repr(float(case["subst"])))
        out = "(Ok %s)" % crows_t(r["ok"]) if "ok" in r else "(Err %s)" % r["err"]
        return "LoadRows %s %s %s" % (subst, crows_t(canon), out)
    return None


def _isnum(c):
    try:
        float(c)
        return True
    except ValueError:
        return False


def model_expr(case):
    if case["op"] == "median":
        return "step_filter 0 median_mid %s %d%%nat %s" % (czl(case["dist"]), case["w"], core.cbool(case["pad"]))
    if case["op"] == "detect":
        return "detect_errors %s %s %s" % (czl(case["dist"]), core.cz(case["tn"]), core.cz(case["td"]))
    return None


def _close(a, b, rel=1e-9, abs_tol=0.0):
    return abs(a - b) <= rel * max(1.0, abs(a), abs(b)) + abs_tol


def _level_tol(v):
    """Absolute slack for statistics of deviations: the mean of values near L is only known to an ulp of L."""
    return 16 * 2.0 ** -53 * float(max([abs(x) for x in v] + [0.0]))


def _cond_tol(v):
    """Relative tolerance for statistics of deviations from the mean: binary64 rounding of the mean is amplified by
    level / spread (a series of small spread on a large level), so the tolerance grows with that ratio and nothing else."""
    if len(v) < 2:
        return 1e-9
    m = sum(v) / len(v)
    sd = math.sqrt(float(sum((x - m) ** 2 for x in v) / len(v)))
    if sd == 0:
        return 1e-9
    return max(1e-9, 64 * 2.0 ** -53 * len(v) * float(max(abs(x) for x in v)) / sd)


def py_checks(case, r):
    op = case["op"]
    if op == "detect" and "ok" in r:
        p = case["dist"]
        probs = []
        for k, lab in zip(r["ok"]["idx"], r["ok"]["labels"]):
            if 1 <= k < len(p) and not _close(float(lab), p[k] / p[k - 1]):
                probs.append("label %r at %d is not the ratio %r" % (lab, k, p[k] / p[k - 1]))
        return probs
    if op == "biglisting":
        if "ok" not in r:
            return ["loadTimeSeriesData on a %d-row listing raised %s" % (case["nrows"], r.get("exc", r))]
        v = r["ok"]
        if v["rows"] != v["want"]:
            return ["loadTimeSeriesData returned %d rows for a listing of %d" % (v["rows"], v["want"])]
        if v["first_bad"] is not None:
            return ["row %d of a %d-row listing came back with other numbers" % (v["first_bad"], v["want"])]
        return []
    if op == "znwin":
        return _check_znwin(case, r)
    if op == "znspk":
        return _check_znspk(case, r)
    if op != "stats":
        if "ok" not in r and op in ("median", "frows"):
            return ["%s raised %s" % (op, r.get("exc", r))]
        return []
    if "ok" not in r:
        return ["statistics raised %s" % r.get("exc", r)]
    v = [Fraction(x) for x in case["dist"]]
    out = r["ok"]
    probs = []
    # getPitchMeasures against exact arithmetic
    vals = list(v)
    if case["w"] is not None:
        o = case["w"] // 2
        n = len(vals)
        vals = [sorted(vals[min(max(x + k - o, 0), n - 1)] for k in range(2 * o + 1))[o] for x in range(n)]
    if case["zero"]:
        vals = [x for x in vals if x != 0]
        if any(0 < abs(x) < 1 for x in vals):
            vals = None
    if vals is not None:
        if not vals:
            exp = [0.0] * 6
        else:
            m = sum(vals) / len(vals)
            var = sum((x - m) ** 2 for x in vals) / len(vals)
            exp = [float(m), float(max(vals)), float(min(vals)), float(max(vals) - min(vals)), float(var), math.sqrt(var)]
        tol = _cond_tol(vals) if vals else 1e-9
        lt = _level_tol(vals) if vals else 0.0
        if not all(_close(a, b, tol, lt) for a, b in zip(out["pm"], exp)):
            probs.append("getPitchMeasures = %r, definitions give %r" % (out["pm"], exp))
    if "rms" in out:
        exp = math.sqrt(sum(x * x for x in v) / len(v))
        if not _close(out["rms"], exp):
            probs.append("rms = %r, definition gives %r" % (out["rms"], exp))
    if "z" in out:
        z = [Fraction(x) for x in out["z"]]
        n = len(z)
        if n != len(v):
            probs.append("znormalizeData changed the length")
        else:
            m = sum(z) / n
            var = sum((x - m) ** 2 for x in z) / (n - 1)
            tol = _cond_tol(v)
            if abs(float(m)) > tol or abs(float(var) - 1.0) > tol:      # (a constant series has no z-scores: znormalizeData raises)
                probs.append("z-normalised series has mean %r and sample variance %r" % (float(m), float(var)))
            order_in = sorted(range(n), key=lambda i: (v[i], i))
            for a, b in zip(order_in, order_in[1:]):
                if (v[a] < v[b] and not z[a] < z[b]) or (v[a] == v[b] and z[a] != z[b]):
                    probs.append("rank order not preserved between positions %d and %d" % (a, b))
                    break
    return probs


def _zscore_center(win):
    """(centre - mean) / sample deviation of a window, exactly; None when the deviation is 0 or undefined"""
    w = [Fraction(x) for x in win]
    if len(w) < 2:
        return None
    m = sum(w) / len(w)
    var = sum((x - m) ** 2 for x in w) / (len(w) - 1)
    if var == 0:
        return None
    return float(w[len(w) // 2] - m) / math.sqrt(float(var))


def _windows(v, w, pad):
    """for each position: the window the filter looks at (edge values repeated), or None where the element is left alone"""
    o, n = w // 2, len(v)
    out = []
    for x in range(n):
        if pad or (0 <= x - o and x + o < n):
            out.append([v[min(max(x + k, 0), n - 1)] for k in range(-o, o + 1)])
        else:
            out.append(None)
    return out


def _check_znwin(case, r):
    v, w = case["dist"], case["w"]
    core_v = [x for x in v if x > 0.0] if case["zero"] else list(v)
    wins = _windows(core_v, w, case["pad"])
    exp_core = []
    undefined = False
    for x, win in zip(core_v, wins):
        if win is None:
            exp_core.append(float(x))
        else:
            z = _zscore_center(win)
            if z is None:
                undefined = True
                break
            exp_core.append(z)
    if undefined:
        # a window without spread has no z-score: raising is the only acceptable outcome besides skipping it
        return [] if "ok" not in r else ["znormWindowFilter returned %r although a window has no spread" % (r["ok"],)]
    if "ok" not in r:
        return ["znormWindowFilter raised %s" % r.get("exc", r)]
    exp = []
    it = iter(exp_core)
    for x in v:
        exp.append(0.0 if (case["zero"] and not x > 0.0) else next(it))
    got = r["ok"]
    if len(got) != len(v):
        return ["znormWindowFilter changed the length: %d -> %d" % (len(v), len(got))]
    if not all(_close(a, b) for a, b in zip(got, exp)):
        return ["znormWindowFilter = %r, the definition (z-score of each element within its window%s) gives %r"
                % (got, ", zero values set aside" if case["zero"] else "", exp)]
    return []


def _check_znspk(case, r):
    rows, idx = case["rows"], case["index"]
    col = [row[idx] for row in rows]
    spread = len(set(col)) > 1
    if "ok" not in r:
        return [] if not spread else ["znormalizeSpeakerData raised %s" % r.get("exc", r)]
    got = r["ok"]
    probs = []
    if len(got) != len(rows):
        return ["znormalizeSpeakerData changed the number of rows"]
    for a, b in zip(rows, got):
        if [x for k, x in enumerate(a) if k != idx] != [x for k, x in enumerate(b) if k != idx]:
            probs.append("znormalizeSpeakerData changed another column or the order of rows: %r -> %r" % (a, b))
            break
    z = [b[idx] for b in got]
    if not case["zero"]:
        zf = [Fraction(x) for x in z]
        m = sum(zf) / len(zf)
        var = sum((x - m) ** 2 for x in zf) / (len(zf) - 1)
        if abs(float(m)) > 1e-9 or abs(float(var) - 1.0) > 1e-9:
            probs.append("z-normalised column has mean %r and sample variance %r" % (float(m), float(var)))
        sel = list(range(len(col)))
    else:
        if any(zv != 0 for cv, zv in zip(col, z) if not cv > 0):
            probs.append("a non-positive value did not stay 0 with zero filtering on")
        sel = [k for k, cv in enumerate(col) if cv > 0]
    order = sorted(sel, key=lambda i: (col[i], i))
    for a, b in zip(order, order[1:]):
        if (col[a] < col[b] and not z[a] < z[b]) or (col[a] == col[b] and z[a] != z[b]):
            probs.append("rank order not preserved between rows %d and %d" % (a, b))
            break
    return probs


def classify(case, r):
    out = "ok" if "ok" in r else "err:" + r.get("err", "offgrid" if "offgrid" in r else "?")
    extra = ""
    if case["op"] == "median":
        extra = "/w%d/%s" % (case["w"], "pad" if case["pad"] else "nopad")
    if case["op"] == "listing":
        extra = "/%s/subst=%r" % ("header" if case["header"] else "noheader", case["subst"])
    return "%s%s/%s" % (case["op"], extra, out)


def nontrivial(case, r):
    return len(case["dist"]) >= 3


def shrinks(case):
    if case["op"] in ("median", "detect", "stats"):
        d = case["dist"]
        for k in range(len(d)):
            yield dict(case, dist=d[:k] + d[k + 1:])


def finding_match(case, r, kind, why, findings):
    return None
