"""C16 -- in-memory audio edits are sample-exact and sample-aligned."""
import os
import shutil
import struct
from fractions import Fraction
from .. import core

ID = "C16"
MODULE = "Check.C16Check"
CASE_TYPE = "C16case"
CORR, ORACLE, HYP = "C16corr", "C16oracle", "C16hyp"
RULE = ("widths {1,2,4} x rates {8,16,64 (dyadic: exact ties occur), 8000, 16000, 44100} x sample lists of 0..40 (quick) / 0..400 "
        "samples including the extremes of the value range x times on sample boundaries, a quarter / 0.4 sample off them, exactly "
        "half-way (dyadic rates) and past the end; (a) histories of <= 6 insert / deleteSegment / replaceSegment / concatenate / "
        "getSubwav, Wav.frames observed after every edit; (b) Wav.getSamples and QueryWav.getSamples on a real .wav file; (c) "
        "convertToBytes / convertFromBytes incl. out-of-range values; (d) insert followed by deleteSegment of the same stretch; "
        "(e) save / Wav.open / QueryWav parameters; non-trivial = the recording has >= 3 samples and the times are not all 0")
EXPLANATION = ("Props/C16.v proves the sample codec round trips for every width and value, that every byte offset is a whole number of "
               "samples, that each edit of the byte string -- and every history of edits -- is the same edit on the list of samples "
               "(nothing else moves or changes), the getSamples clause, duration = samples / rate, and insert-then-delete = identity "
               "for every non-tie time (with the tie witness as a refutation of the unrestricted clause).  This run compares the "
               "bytes of Wav.frames after every edit with the byte-level model and judges them against the list-of-samples "
               "specification inside Coq; .wav files are written and read back with the real wave module.")
TRUSTED = ["models: Audio/WavModel.v (enc_s/dec_s two's complement little endian, index_at, wav_* edits, read_frames_at)",
           "struct.pack/unpack and the wave module (runtime library); the harness decodes Wav.frames with int.from_bytes, not with praatio",
           "times are handed to Coq as the exact rational value of the binary64 time; the generator keeps time*rate >= 0.1 sample away "
           "from a half-integer unless the product is exact (dyadic rates), so float rounding of time*rate cannot change the nearest index"]
ASSUMPTIONS = ["mono recordings; times >= 0"]
RATES_DY = [8, 16, 64, 1, 4096]
RATES_DEC = [8000, 16000, 44100, 22050, 48000, 96000, 11025, 100, 7]


def _samples(rng, w, n):
    lo, hi = -(2 ** (8 * w - 1)), 2 ** (8 * w - 1) - 1
    out = []
    for _ in range(n):
        u = rng.random()
        out.append(lo if u < 0.05 else hi if u < 0.1 else 0 if u < 0.15 else rng.randint(lo, hi) if u < 0.6 else rng.randint(-50, 50))
    return out


def _time(rng, rate, nsamp):
    """a time in [0, duration] (sometimes a little past it) as a float"""
    k = rng.randint(0, nsamp + (2 if rng.random() < 0.1 else 0))
    if rate in RATES_DY:
        off = rng.choice([0, 0, 0.25, -0.25, 0.5, -0.5, 0.375])
    else:
        off = rng.choice([0, 0, 0.25, -0.25, 0.4, -0.4])
    t = (k + off) / rate
    return max(t, 0.0)


def _rat(t):
    f = Fraction(t)
    return [f.numerator, f.denominator]


def _gen_op(rng, w, rate, n):
    u = rng.random()
    if u < 0.3:
        return {"op": "insert", "t": _time(rng, rate, n), "f": _samples(rng, w, rng.randint(0, 5))}
    if u < 0.55:
        a, b = sorted((_time(rng, rate, n), _time(rng, rate, n)))
        return {"op": "delete", "a": a, "b": b}
    if u < 0.75:
        a, b = sorted((_time(rng, rate, n), _time(rng, rate, n)))
        return {"op": "replace", "a": a, "b": b, "f": _samples(rng, w, rng.randint(0, 5))}
    if u < 0.88:
        return {"op": "concat", "f": _samples(rng, w, rng.randint(0, 5))}
    a, b = sorted((_time(rng, rate, n), _time(rng, rate, n)))
    if rng.random() < 0.3:
        # the whole recording, named exactly or by times that round to its two ends
        a, b = rng.choice([0.0, 0.0, 0.25 / rate]), (n - rng.choice([0, 0, 0.25])) / rate
    return {"op": "subwav", "a": a, "b": b}


def generate(tier, rng):
    cases = []
    nmax = 40 if tier == "quick" else 400
    for _ in range(600 if tier == "quick" else 20000):
        w = rng.choice([1, 2, 4])
        rate = rng.choice(RATES_DY + RATES_DEC)
        s = _samples(rng, w, rng.choice([0, 1, 3, rng.randint(2, nmax)]))
        n = len(s)
        ops = []
        for _k in range(rng.randint(1, 6)):
            o = _gen_op(rng, w, rate, n)
            ops.append(o)
        cases.append({"op": "hist", "w": w, "rate": rate, "s": s, "ops": ops, "scale": ["exact", 0]})
    for _ in range(500 if tier == "quick" else 15000):
        w = rng.choice([1, 2, 4])
        rate = rng.choice(RATES_DY + RATES_DEC)
        s = _samples(rng, w, rng.randint(0, nmax))
        a, b = sorted((_time(rng, rate, len(s)), _time(rng, rate, len(s))))
        a, b = min(a, len(s) / rate), min(b, len(s) / rate)
        cases.append({"op": rng.choice(["get", "query"]), "w": w, "rate": rate, "s": s, "a": a, "b": b, "scale": ["exact", 0]})
    for _ in range(200 if tier == "quick" else 5000):
        w = rng.choice([1, 2, 4])
        s = _samples(rng, w, rng.randint(0, 12))
        if rng.random() < 0.2 and s:
            s[rng.randrange(len(s))] = rng.choice([2 ** (8 * w - 1), -(2 ** (8 * w - 1)) - 1, 2 ** (8 * w)])
        cases.append({"op": "codec", "w": w, "rate": 8, "s": s, "scale": ["exact", 0]})
    for _ in range(400 if tier == "quick" else 10000):
        w = rng.choice([1, 2, 4])
        rate = rng.choice(RATES_DY + RATES_DEC)
        s = _samples(rng, w, rng.randint(0, nmax))
        t = min(_time(rng, rate, len(s)), len(s) / rate)
        cases.append({"op": "insdel", "w": w, "rate": rate, "s": s, "t": t, "f": _samples(rng, w, rng.randint(0, 6)), "scale": ["exact", 0]})
    for _ in range(60 if tier == "quick" else 1500):
        w = rng.choice([1, 2, 4])
        cases.append({"op": "file", "w": w, "rate": rng.choice(RATES_DY + RATES_DEC), "s": _samples(rng, w, rng.randint(0, nmax)), "scale": ["exact", 0]})
    return cases


def _enc(s, w):
    """independent of praatio: little-endian two's complement"""
    return b"".join(int(x).to_bytes(w, "little", signed=True) for x in s)


def _bytes_list(b):
    return list(b)


def _mk(case):
    from praatio import audio
    return audio.Wav(_enc(case["s"], case["w"]), [1, case["w"], case["rate"], len(case["s"]), "NONE", "not compressed"])


def run(case):
    from praatio import audio
    op = case["op"]
    w, rate = case["w"], case["rate"]
    if op == "hist":
        def f():
            wav = _mk(case)
            recs = []
            kept = []       # recordings a sub-recording was taken from, with their frames at that moment
            for o in case["ops"]:
                if o["op"] == "subwav":
                    kept.append((wav, bytes(wav.frames)))
                if o["op"] == "insert":
                    wav.insert(o["t"], _enc(o["f"], w))
                elif o["op"] == "delete":
                    wav.deleteSegment(o["a"], o["b"])
                elif o["op"] == "replace":
                    wav.replaceSegment(o["a"], o["b"], _enc(o["f"], w))
                elif o["op"] == "concat":
                    wav.concatenate(_enc(o["f"], w))
                else:
                    wav = wav.getSubwav(o["a"], o["b"])
                for src, fr in kept:
                    if bytes(src.frames) != fr:
                        raise core.OffGrid("editing the recording returned by getSubwav changed the recording it was taken from")
                recs.append({"bytes": _bytes_list(wav.frames), "duration": wav.duration})
            return recs
        return core.run_guarded(f)
    if op == "get":
        return core.run_guarded(lambda: list(_mk(case).getSamples(case["a"], case["b"])))
    if op == "codec":
        def g():
            try:
                b = audio.convertToBytes(tuple(case["s"]), w)
            except struct.error:
                return {"err": "PyError"}
            back = list(audio.convertFromBytes(b, w))
            return {"bytes": _bytes_list(b), "back": back}
        return core.run_guarded(g)
    if op == "insdel":
        def h():
            wav = _mk(case)
            fr = _enc(case["f"], w)
            wav.insert(case["t"], fr)
            wav.deleteSegment(case["t"], case["t"] + len(case["f"]) / rate)
            return _bytes_list(wav.frames)
        return core.run_guarded(h)
    d = os.path.join(core.VERIF, ".work", "c16.%d" % os.getpid())
    os.makedirs(d, exist_ok=True)
    fn = core.fname(os.path.join(d, "a.wav"))
    try:
        if op == "query":
            def q():
                _mk(case).save(fn)
                qw = audio.QueryWav(fn)
                try:
                    return list(qw.getSamples(case["a"], case["b"]))
                finally:
                    qw.audiofile.close()
            return core.run_guarded(q)
        if op == "file":
            def ff():
                wav = _mk(case)
                wav.save(fn)
                w2 = audio.Wav.open(fn)
                qw = audio.QueryWav(fn)
                try:
                    return {"frames_equal": w2.frames == wav.frames, "params": [w2.nchannels, w2.sampleWidth, w2.frameRate],
                            "qparams": [qw.nchannels, qw.sampleWidth, qw.frameRate, qw.nframes], "qdur": qw.duration, "dur": wav.duration,
                            "qall": list(qw.getSamples(0, qw.duration)), "eq": w2 == wav, "dur2": audio.getDuration(fn)}
                finally:
                    qw.audiofile.close()
            return core.run_guarded(ff)
    finally:
        shutil.rmtree(d, ignore_errors=True)
    raise ValueError(op)


def czl(l):
    return core.clist([core.cz(x) for x in l], "Z")


def crat(t):
    n, d = _rat(t)
    return "(%s, %s)" % (core.cz(n), core.cz(d))


def _cop(o):
    if o["op"] == "insert":
        return "(WInsert %s %s)" % (crat(o["t"]), czl(o["f"]))
    if o["op"] == "delete":
        return "(WDelete %s %s)" % (crat(o["a"]), crat(o["b"]))
    if o["op"] == "replace":
        return "(WReplace %s %s %s)" % (crat(o["a"]), crat(o["b"]), czl(o["f"]))
    if o["op"] == "concat":
        return "(WConcat %s)" % czl(o["f"])
    return "(WSubwav %s %s)" % (crat(o["a"]), crat(o["b"]))


def emit(case, r):
    op = case["op"]
    w, rate, s = case["w"], case["rate"], case["s"]
    if op == "hist":
        if "ok" not in r:
            return None
        steps = ["(%s, %s)" % (_cop(o), czl(rec["bytes"])) for o, rec in zip(case["ops"], r["ok"])]
        return "WavHist %d %d %s %s" % (w, rate, czl(s), core.clist(steps))
    if op in ("get", "query"):
        out = "(Ok %s)" % czl(r["ok"]) if "ok" in r else "(Err %s)" % r["err"]
        if op == "get":
            return "WavGet %d %d %s %s %s %s" % (w, rate, czl(s), crat(case["a"]), crat(case["b"]), out)
        return "QueryGet %d %s %s %s %s" % (rate, czl(s), crat(case["a"]), crat(case["b"]), out)
    if op == "codec":
        if "ok" not in r:
            return None
        v = r["ok"]
        return "Codec %d %s %s" % (w, czl(s), "(Err PyError)" if "err" in v else "(Ok %s)" % czl(v["bytes"]))
    if op == "insdel":
        if "ok" not in r:
            return None
        return "InsDel %d %d %s %s %s %s" % (w, rate, czl(s), crat(case["t"]), czl(case["f"]), czl(r["ok"]))
    return None


def model_expr(case):
    if case["op"] == "hist":
        return "map w_frames (let v0 := mkWav (encode_all %d %s) %d %d in [fold_left run_wop %s v0])" % (
            case["w"], czl(case["s"]), case["w"], case["rate"], core.clist([_cop(o) for o in case["ops"]]))
    return None


def py_checks(case, r):
    op = case["op"]
    if "ok" not in r and op in ("hist", "codec", "insdel", "file"):
        return ["%s raised %s" % (op, r.get("exc", r))]
    if op in ("get", "query") and "ok" not in r:
        return ["getSamples raised %s for times inside the recording" % r.get("exc", r)]
    if op == "hist":
        probs = []
        for k, rec in enumerate(r["ok"]):
            n = len(rec["bytes"])
            if n % case["w"] == 0 and abs(rec["duration"] - n / case["w"] / case["rate"]) > 1e-12 * max(1.0, rec["duration"]):
                probs.append("step %d: duration %r is not sample count / rate = %r" % (k, rec["duration"], n / case["w"] / case["rate"]))
        return probs
    if op == "codec":
        v = r["ok"]
        if "back" in v and v["back"] != case["s"]:
            return ["convertFromBytes(convertToBytes(s)) != s"]
    if op == "file":
        v = r["ok"]
        probs = []
        if not v["frames_equal"] or not v["eq"]:
            probs.append("Wav.open(save(w)) has different frames")
        if v["params"] != [1, case["w"], case["rate"]]:
            probs.append("parameters %r after save/open" % (v["params"],))
        if v["qparams"] != [1, case["w"], case["rate"], len(case["s"])]:
            probs.append("QueryWav parameters %r" % (v["qparams"],))
        if v["qall"] != case["s"]:
            probs.append("QueryWav.getSamples(0, duration) differs from the samples")
        if v["qdur"] != len(case["s"]) / case["rate"] or v["dur2"] != v["qdur"] or abs(v["dur"] - v["qdur"]) > 1e-12:
            probs.append("durations %r %r %r" % (v["qdur"], v["dur"], v["dur2"]))
        return probs
    return []


def classify(case, r):
    out = "err:" + r["err"] if "err" in r else "ok"
    kind = "dyadic" if case["rate"] in RATES_DY else "decimal"
    return "%s/w%d/%s/%s" % (case["op"], case["w"], kind, out)


def nontrivial(case, r):
    return len(case["s"]) >= 3


def shrinks(case):
    if case["op"] == "hist":
        ops = case["ops"]
        for k in range(len(ops) - 1, 0, -1):
            yield dict(case, ops=ops[:k])
        for k in range(len(ops)):
            if len(ops) > 1:
                yield dict(case, ops=ops[:k] + ops[k + 1:])
    if len(case["s"]) > 4:
        yield dict(case, s=case["s"][: len(case["s"]) // 2])


def _is_tie(t, rate):
    f = Fraction(t) * rate
    return (2 * f) % 2 == 1


def finding_match(case, r, kind, why, findings):
    if not why.startswith("oracle"):
        return None
    for f in findings:
        pred = f.get("matcher", {}).get("pred")
        if pred == "insert_delete_at_tie_odd_length" and case["op"] == "insdel":
            if _is_tie(case["t"], case["rate"]) and len(case["f"]) % 2 == 1:
                return f["id"]
    return None
