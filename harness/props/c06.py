"""C06 -- crop keeps exactly the annotation inside the window, per mode."""
import itertools
import sys
from .. import core, gen, obshist, tierops

ID = "C06"
MODULE = "Check.C06Check"
CASE_TYPE = "C06case"
CORR, ORACLE, HYP = "C06corr", "C06oracle", "C06hyp"
MODES = {"strict": "Strict", "lax": "Lax", "truncated": "Truncated"}
RULE = ("exhaustive small scope (all wf tiers of <=3 (quick: sampled) / <=3 full (thorough) intervals on the even grid 0..8 x all "
        "windows -1..9 x 3 modes x rebase) + random larger tiers on dyadic and decimal grids + degenerate windows + "
        "Textgrid.crop; a case is non-trivial when the window is proper and the tier has entries; distinct = distinct (input, output)")
EXPLANATION = ("Theorems in Props/C06.v prove, for all well-formed tiers of any size and all windows, that the model of crop "
               "equals the filter/map specification read off the property text (C06_crop_meets_spec) and the consequences the "
               "property lists.  This run ties model to /repo: the implementation's output on every generated case is compared "
               "inside Coq (vm_compute) with the model (correspondence) and with the specification (oracle).")
TRUSTED = ["models: Tier/TierModel.v crop_i, crop_p, giii1, new_itier, new_ptier (hand-written from interval_tier.py, point_tier.py, utils.py)"]
ASSUMPTIONS = ["timestamps on a dyadic grid are computed exactly by binary64; decimal-grid results are accepted within 1e-6 tick",
               "distinct entries are never math.isclose (grid spacing >> 1e-9 relative)"]


def _touching_windows(tier, rng):
    """Textgrid.crop with a window that only touches a tier's own span: it starts exactly where a narrow tier ends (or ends
    where it starts), and that tier holds an entry reaching that time -- a point ON the shared time is inside the closed
    window.  Own PRNG stream, so that the other cases are what they were before this family existed."""
    import random
    rng = random.Random(rng.random())
    cases = []
    for _ in range(120 if tier == "quick" else 4000):
        tiers = []
        for k in range(rng.randint(2, 4)):
            t = gen.random_ptier(rng, name="p%d" % k, tmax=40) if rng.random() < 0.6 else gen.random_itier(rng, name="i%d" % k, tmax=40)
            if t["entries"] and rng.random() < 0.7:
                t["min"], t["max"] = t["entries"][0][0] - rng.choice([0, 0, 1]), t["entries"][-1][-2] + rng.choice([0, 0, 1])
            else:
                t["min"], t["max"] = min(0, t["min"]), max(40, t["max"])
            tiers.append(t)
        t = rng.choice(tiers)
        if rng.random() < 0.5:
            a = t["max"]
            b = a + rng.randint(1, 12)
        else:
            b = t["min"]
            a = b - rng.randint(1, 12)
        cases.append({"op": "tgcrop", "tiers": tiers, "a": a, "b": b, "mode": rng.choice(list(MODES)),
                      "rebase": rng.random() < 0.5, "scale": gen.pick_scale(rng)})
    return cases


def generate(tier, rng):
    cases = []
    small = gen.small_itiers(8, 3)
    wins = [(a, b) for a in range(-1, 10) for b in range(-1, 10)]
    combos = list(itertools.product(range(len(small)), wins, MODES, (True, False)))
    if tier == "quick":
        combos = rng.sample(combos, min(len(combos), 4000))
    for ti, (a, b), m, rb in combos:
        cases.append({"op": "icrop", "tier": small[ti], "a": a, "b": b, "mode": m, "rebase": rb,
                      "scale": ["dyadic", rng.choice([0, 2, 7])]})
    nrand = 2500 if tier == "quick" else 60000
    for _ in range(nrand):
        sc = gen.pick_scale(rng)
        if rng.random() < 0.75:
            t = gen.random_itier(rng, long_p=0.02)
            a, b = rng.randint(-5, 70), rng.randint(-5, 70)
            if rng.random() < 0.6 and t["entries"]:
                # put edges on entry boundaries
                bs = [e[0] for e in t["entries"]] + [e[1] for e in t["entries"]]
                a = rng.choice(bs)
                if rng.random() < 0.5:
                    b = rng.choice(bs)
            if rng.random() < 0.85 and a > b:
                a, b = b, a
            cases.append({"op": "icrop", "tier": t, "a": a, "b": b, "mode": rng.choice(list(MODES)),
                          "rebase": rng.random() < 0.5, "scale": sc})
        else:
            t = gen.random_ptier(rng, distinct=rng.random() < 0.8, long_p=0.02)
            a, b = rng.randint(-5, 70), rng.randint(-5, 70)
            if t["entries"] and rng.random() < 0.5:
                a = rng.choice(t["entries"])[0]
            if rng.random() < 0.85 and a > b:
                a, b = b, a
            cases.append({"op": "pcrop", "tier": t, "a": a, "b": b, "mode": rng.choice(list(MODES)),
                          "rebase": rng.random() < 0.5, "scale": sc})
    sp = gen.small_ptiers(8, 3)
    for t in (sp if tier != "quick" else rng.sample(sp, min(len(sp), 12))):
        for a, b in (wins if tier != "quick" else rng.sample(wins, min(len(wins), 25))):
            cases.append({"op": "pcrop", "tier": t, "a": a, "b": b, "mode": "lax", "rebase": (a + b) % 2 == 0,
                          "scale": ["dyadic", 1]})
    ntg = 500 if tier == "quick" else 6000
    for _ in range(ntg):
        tiers = []
        for k in range(rng.randint(1, 4)):
            t = gen.random_itier(rng, name="i%d" % k, tmax=40) if rng.random() < 0.6 else gen.random_ptier(rng, name="p%d" % k, tmax=40)
            if rng.random() < 0.6:
                t["min"], t["max"] = min(0, t["min"]), max(40, t["max"])
            elif t["entries"]:
                # a tier narrower than the others (its own first and last time, or a little more)
                lo, hi = t["entries"][0][0], t["entries"][-1][-2]
                t["min"], t["max"] = lo - rng.randint(0, 2), hi + rng.randint(0, 2)
            tiers.append(t)
        if rng.random() < 0.15:
            # annotation that starts before 0 (negative times are ordinary times): windows beginning at 0 then cut through it
            off = -rng.randint(1, 25)
            wide = [e for t in tiers if t["kind"] == "I" for e in t["entries"] if e[1] - e[0] > 1]
            if wide and rng.random() < 0.6:
                e = rng.choice(wide)
                off = -rng.randint(e[0] + 1, e[1] - 1)          # 0 falls inside an interval
            tiers = [gen.shift_tier(t, off) for t in tiers]
            a, b = sorted((rng.randint(-3, 45), rng.randint(-3, 45)))
            if rng.random() < 0.6 and b > 0:
                a = 0
        else:
            a, b = sorted((rng.randint(-3, 45), rng.randint(-3, 45)))
        u = rng.random()
        if u < 0.1:
            b = a
        elif u < 0.3:
            # a window that covers every tier completely, with or without room to spare
            a = min(t["min"] for t in tiers) - rng.choice([0, 0, 1, 3])
            b = max(t["max"] for t in tiers) + rng.choice([0, 0, 1, 3])
        cases.append({"op": "tgcrop", "tiers": tiers, "a": a, "b": b, "mode": rng.choice(list(MODES)),
                      "rebase": rng.random() < 0.5, "scale": gen.pick_scale(rng)})
    cases += _touching_windows(tier, rng)
    # the same selections on a grid of binary64 neighbours (0.3 and 0.1+0.2 are different times): crop compares exactly
    elig = [c for c in cases if c["op"] in ("icrop", "pcrop") and not c["rebase"]]
    for c in rng.sample(elig, min(len(elig), 600 if tier == "quick" else 20000)):
        cases.append(dict(c, scale=["near", 1]))

    return cases


def run(case):
    sc = core.Scale(*case["scale"])
    a, b = sc.f(case["a"]), sc.f(case["b"])
    if case["op"] == "tgcrop":
        from praatio.data_classes.textgrid import Textgrid

        def f():
            tg = Textgrid()
            built = []
            for t in case["tiers"]:
                x = core.mk_tier(t, sc)
                built.append(x)
                tg.addTier(x, reportingMode="silence")
            r = tg.crop(a, b, case["mode"], case["rebase"])
            per = []
            for x in built:
                per.append(core.snap_tier(x.crop(a, b, case["mode"], case["rebase"]), sc))
            return {"names": list(r.tierNames), "tiers": [core.snap_tier(x, sc) for x in r.tiers],
                    "per_tier": per, "min": core.tk(r.minTimestamp, sc), "max": core.tk(r.maxTimestamp, sc)}
        return core.run_guarded(f)

    def f():
        t = core.mk_tier(case["tier"], sc)
        return core.snap_tier(t.crop(a, b, case["mode"], case["rebase"]), sc)
    return core.run_guarded(f)


def emit(case, r):
    if case["op"] == "tgcrop":
        return None
    if case["op"] == "icrop":
        return "CropI %s %s %s %s %s %s" % (core.citier(case["tier"]), core.cz(case["a"]), core.cz(case["b"]),
                                            MODES[case["mode"]], core.cbool(case["rebase"]), core.cres(r, core.citier))
    return "CropP %s %s %s %s %s" % (core.cptier(case["tier"]), core.cz(case["a"]), core.cz(case["b"]),
                                     core.cbool(case["rebase"]), core.cres(r, core.cptier))


def model_expr(case):
    if case["op"] == "icrop":
        return "crop_i %s %s %s %s %s" % (core.citier(case["tier"]), core.cz(case["a"]), core.cz(case["b"]),
                                          MODES[case["mode"]], core.cbool(case["rebase"]))
    if case["op"] == "pcrop":
        return "crop_p %s %s %s %s" % (core.cptier(case["tier"]), core.cz(case["a"]), core.cz(case["b"]),
                                       core.cbool(case["rebase"]))
    return None


def py_checks(case, r):
    """Textgrid.crop: same names/order, each tier = the tier's own crop, span as stated."""
    if case["op"] != "tgcrop":
        return []
    fails = []
    a, b = case["a"], case["b"]
    if a >= b:
        if r.get("err") != "ArgumentError":
            fails.append("degenerate window not rejected with ArgumentError: %r" % (r,))
        return fails
    if "ok" not in r:
        return ["Textgrid.crop raised %s on a proper window" % r.get("exc", r)]
    v = r["ok"]
    if v["names"] != [t["name"] for t in case["tiers"]]:
        fails.append("tier names/order changed")
    if v["tiers"] != v["per_tier"]:
        fails.append("a tier of the cropped textgrid differs from that tier's own crop")
    lo, hi = (0, b - a) if case["rebase"] else (a, b)
    if case["mode"] != "lax":
        if (v["min"], v["max"]) != (lo, hi):
            fails.append("textgrid span %r, expected %r" % ((v["min"], v["max"]), (lo, hi)))
    else:
        elo = min([lo] + [t["min"] for t in v["tiers"]])
        ehi = max([hi] + [t["max"] for t in v["tiers"]])
        if (v["min"], v["max"]) != (elo, ehi):
            fails.append("lax textgrid span %r not the hull %r" % ((v["min"], v["max"]), (elo, ehi)))
    return fails


def classify(case, r):
    kind = "degenerate" if case["a"] >= case["b"] else "proper"
    out = "err:" + r["err"] if "err" in r else ("offgrid" if "offgrid" in r else "ok")
    return "%s/%s/%s/%s/%s/%s" % (case["op"], case["mode"], "rebase" if case["rebase"] else "norebase",
                                  case["scale"][0], kind, out)


def nontrivial(case, r):
    if case["a"] >= case["b"]:
        return False
    if case["op"] == "tgcrop":
        return any(t["entries"] for t in case["tiers"])
    return bool(case["tier"]["entries"])


def shrinks(case):
    if case["op"] == "tgcrop":
        for k in range(len(case["tiers"])):
            c = dict(case)
            c["tiers"] = case["tiers"][:k] + case["tiers"][k + 1:]
            if c["tiers"]:
                yield c
        return
    for t2 in gen.shrink_tier(case["tier"]):
        c = dict(case)
        c["tier"] = t2
        yield c
    if case["scale"] != ["dyadic", 0]:
        c = dict(case)
        c["scale"] = ["dyadic", 0]
        yield c


def finding_match(case, r, kind, why, findings):
    return None


def _obs_term(kind, state, st, res):
    a = st["args"]
    if kind == "I":
        return "CropI %s %s %s %s %s %s" % (core.citier(state), core.cz(a["a"]), core.cz(a["b"]), tierops.CROP[a["mode"]], core.cbool(a["rebase"]),
                                           obshist.res_tier(res, core.citier))
    return "CropP %s %s %s %s %s" % (core.cptier(state), core.cz(a["a"]), core.cz(a["b"]), core.cbool(a["rebase"]), obshist.res_tier(res, core.cptier))


obshist.install(sys.modules[__name__], ["crop"], ["crop"], _obs_term)
