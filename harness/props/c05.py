"""C05 -- every reachable tier is well-formed (sorted, disjoint, inside its span, labels stripped, validate() agrees)."""
from .. import core, gen, tierops

ID = "C05"
MODULE = "Check.C05Check"
CASE_TYPE = "C05case"
CORR, ORACLE, HYP = "C05corr", "C05oracle", "C05hyp"
RULE = ("random histories (<=12 steps) of {construct, crop, eraseRegion, insertSpace, editTimestamps, insertEntry x3 modes, "
        "deleteEntry, union, difference, intersection, mergeLabels, appendTier, dejitter, morph, new} on interval tiers and the "
        "point-tier subset, arguments arbitrary (incl. labels with surrounding whitespace, overlapping constructor input, "
        "out-of-span entries); generated adaptively against the implementation's current state; dyadic histories are compared "
        "step by step with the model, decimal histories are judged by the oracle only; non-trivial = >=3 steps and >=1 success")
EXPLANATION = ("Props/C05.v proves that the constructors return only well-formed tiers, that every modelled operation maps a "
               "well-formed tier to a well-formed tier or an error, hence (induction over the history) that every reachable tier is "
               "well-formed, and that validate() is True on well-formed tiers.  This run checks well-formedness and validate() on the "
               "implementation's tier after every step of every history and, on dyadic grids, state equality with the model.")
TRUSTED = ["models: Tier/TierOps.v run_opI, run_opP over Tier/TierModel.v"]
ASSUMPTIONS = ["validate('silence') is called on the implementation's float state; well-formedness is judged on the tick snapshot"]

WS_LABELS = ["a", "b", "", " a", "b ", "\ta b\n", "a-b", " x"]


def _rand_other(rng, kind, big):
    return gen.random_itier(rng, tmax=big, maxn=5, name="o") if kind == "I" else gen.random_ptier(rng, tmax=big, maxn=5, name="o")


def _gen_op(rng, kind, cur, big):
    """cur: current tier snapshot (ticks)."""
    lo, hi = cur["min"], cur["max"]
    bs = [x for e in cur["entries"] for x in e[:-1]] or [lo, hi]

    def t():
        return rng.choice(bs) + rng.choice([0, 0, 0, -1, 1]) if rng.random() < 0.5 else rng.randint(min(lo, hi) - 3, max(lo, hi) + 3)   # (an implementation state with max < min must not stop the history: the oracle reports it)
    ops = ["crop", "erase", "space", "edit", "insert", "insert", "delete", "union", "append", "dejitter", "new", "construct", "construct"]
    if kind == "I":
        ops += ["difference", "intersection", "mergeLabels", "morph"]
    op = rng.choice(ops)
    if len(cur["entries"]) > 64 and rng.random() < 0.4:
        op = "insert"          # a long tier: the operation whose cost grows with the tier, hence the one that gets short cuts
    if op == "crop":
        a, b = t(), t()
        if a > b and rng.random() < 0.9:
            a, b = b, a
        return {"op": op, "a": a, "b": b, "mode": rng.choice(list(tierops.CROP)), "rebase": rng.random() < 0.4}
    if op == "erase":
        ra = t()
        rb = t()
        a, b = sorted((max(lo, min(hi, ra)), max(lo, min(hi, rb))))
        if kind == "P" and (ra + rb) % 2 == 0:
            # a region that reaches past the tier's own span (nothing forbids it): the shrunken span is then computed from
            # an end beyond the tier's, and the result must still contain its points.  Decided from the two draws
            # already made, so that the histories of the other cases are what they were before
            a, b = sorted((ra, rb))
            if b >= hi:
                b += (ra + 2 * rb) % 7
        return {"op": op, "a": a, "b": b, "mode": rng.choice(list(tierops.ERASE)), "shrink": rng.random() < 0.5}
    if op == "space":
        return {"op": op, "s": max(lo, min(hi, t())), "d": rng.randint(1, 9), "mode": rng.choice(list(tierops.SPACE))}
    if op == "edit":
        return {"op": op, "o": rng.choice([rng.randint(-15, 15), -hi - 1, 0]), "mode": rng.choice(list(tierops.REP))}
    if op == "insert":
        if kind == "I":
            s, e = t(), t()
            if s > e:
                s, e = e, s
            if s == e and rng.random() < 0.8:
                e += rng.randint(1, 5)
            ent = [s, e, rng.choice(WS_LABELS)]
        else:
            ent = [t(), rng.choice(WS_LABELS)]
        # collisionReportingMode='error' is accepted at run time (the type hint lists silence|warning): the insert is
        # carried out and CollisionError raised afterwards; whatever the tier holds then must still be well-formed
        return {"op": op, "e": ent, "mode": rng.choice(list(tierops.INS)), "report": rng.choice(["silence", "silence", "warning", "error"])}
    if op == "delete":
        if cur["entries"] and rng.random() < 0.8:
            return {"op": op, "e": list(rng.choice(cur["entries"]))}
        return {"op": op, "e": [0, 1, "zz"] if kind == "I" else [0, "zz"]}
    if op in ("union", "difference", "intersection", "mergeLabels", "append"):
        return {"op": op, "other": _rand_other(rng, kind, big)}
    if op == "dejitter":
        ref = _rand_other(rng, rng.choice(["I", "P"]), big)
        if rng.random() < 0.1:
            ref["entries"] = []
        return {"op": op, "ref": ref, "d": rng.randint(1, 4)}
    if op == "morph":
        tg = gen.random_itier(rng, tmax=big, maxn=6, name="g")
        if rng.random() < 0.7:
            # same count as the current tier
            n = len(cur["entries"])
            ents, x = [], 0
            for _ in range(n):
                x += rng.randint(0, 3)
                d = rng.randint(1, 6)
                ents.append([x, x + d, "g"])
                x += d
            tg = {"kind": "I", "name": "g", "entries": ents, "min": 0, "max": x + 2}
        keep = None if rng.random() < 0.5 else rng.sample(["a", "b", "", "ab", "x y"], 2)
        return {"op": op, "target": tg, "filter": keep}
    if op == "new":
        return {"op": op}
    # construct from an arbitrary entry list
    n = rng.randint(0, 5)
    if kind == "I":
        ents = []
        for _ in range(n):
            s = rng.randint(0, big)
            ents.append([s, s + rng.randint(-1, 8), rng.choice(WS_LABELS)])
    else:
        ents = [[rng.randint(0, big), rng.choice(WS_LABELS)] for _ in range(n)]
    if rng.random() < 0.5:
        # what callers mostly hand over: entries already in time order, labels already trimmed
        ents.sort()
        if rng.random() < 0.7:
            ents = [e[:-1] + [e[-1].strip()] for e in ents]
    mn = None if rng.random() < 0.3 else rng.randint(-2, 5)
    mx = None if rng.random() < 0.3 else rng.randint(big - 10, big + 5)
    return {"op": op, "name": "c", "entries": ents, "mn": mn, "mx": mx}


_SIBLINGS = []


def _apply(tier, o, sc, kind):
    if o["op"] == "construct":
        from praatio.data_classes.interval_tier import IntervalTier
        from praatio.data_classes.point_tier import PointTier
        from praatio.utilities.constants import Interval, Point
        st = tierops._style("construct", o)
        ents = [tuple([sc.f(x) for x in e[:-1]] + [e[-1]]) for e in o["entries"]]
        # how the caller spells the argument: entries as plain tuples / lists / the library's named tuples, held in a
        # list or in a tuple (the shape of tier.entries)
        if st % 3 == 1:
            ents = [list(e) for e in ents]
        elif st % 3 == 2:
            ents = [(Interval(*e) if kind == "I" else Point(*e)) for e in ents]
        if (st >> 4) % 3 == 1:
            ents = tuple(ents)
        cls = IntervalTier if kind == "I" else PointTier
        if (st >> 6) % 2:
            # a second tier built from the very same list object: each has its own entries from then on
            try:
                sib = cls(o["name"], ents, None if o["mn"] is None else sc.f(o["mn"]), None if o["mx"] is None else sc.f(o["mx"]))
                _SIBLINGS.append((sib, core.raw_tier(sib)))
            except Exception:  # noqa
                pass
        return cls(o["name"], ents, None if o["mn"] is None else sc.f(o["mn"]), None if o["mx"] is None else sc.f(o["mx"]))
    return tierops.apply_op(tier, o["op"], o, sc, kind)


def _rank_snap(tier):
    """Order-isomorphic integer encoding of the tier's float state: well-formedness
    depends only on the order relations between its times, so judging the ranks is
    judging the floats exactly (no rounding to the tick grid)."""
    vals = set([float(tier.minTimestamp), float(tier.maxTimestamp)])
    for e in tier.entries:
        for x in e[:-1]:
            vals.add(float(x))
    rank = {v: i for i, v in enumerate(sorted(vals))}
    ents = [[rank[float(x)] for x in e[:-1]] + [e[-1]] for e in tier.entries]
    return {"kind": "I" if len(ents) == 0 and hasattr(tier, "tierType") and tier.tierType == "IntervalTier" or (ents and len(ents[0]) == 3) else "P",
            "name": tier.name, "entries": ents, "min": rank[float(tier.minTimestamp)], "max": rank[float(tier.maxTimestamp)]}


def _gen_op_near(rng, kind, cur, big):
    while True:
        o = _gen_op(rng, kind, cur, big)
        if o["op"] in ("insert", "delete", "union", "difference", "intersection", "mergeLabels", "new") \
                or (o["op"] == "crop" and not o["rebase"]) or (o["op"] == "erase" and not o["shrink"]):
            return o


def _run_history(t0, ops, sc, kind, gen_next=None, rng=None, nsteps=0):
    """Runs ops (or generates them adaptively) on the implementation; returns (ops, records)."""
    tier = core.mk_tier(t0, sc)
    cur = core.snap_tier(tier, sc)
    recs, used = [], []
    del _SIBLINGS[:]
    k = 0
    while True:
        if gen_next is not None:
            if k >= nsteps:
                break
            o = gen_next(rng, kind, cur, 40)
        else:
            if k >= len(ops):
                break
            o = ops[k]
        k += 1
        err = None
        try:
            with core.captured_stdout():
                r = _apply(tier, o, sc, kind)
            tier = r
        except Exception as e:  # noqa
            err = core.err_kind(e)
        for sib, was in _SIBLINGS:
            if core.raw_tier(sib) != was:
                raise core.OffGrid("a tier built from the same entry list as the tier under edit changed with it (step %d, %s)" % (k, o["op"]))
        with core.captured_stdout():
            v = bool(tier.validate("silence"))
        cur = core.snap_tier(tier, sc)
        used.append(o)
        recs.append([err, cur, v, _rank_snap(tier)])
    return used, recs


def generate(tier, rng):
    cases = []
    n = 700 if tier == "quick" else 20000
    for _ in range(n):
        kind = "I" if rng.random() < 0.7 else "P"
        sc = gen.pick_scale(rng, decimal_share=0.3)
        t0 = gen.random_itier(rng, tmax=40, maxn=5, long_p=0.03) if kind == "I" else gen.random_ptier(rng, tmax=40, maxn=5, long_p=0.03)
        scale = core.Scale(*sc)
        try:
            ops, _ = _run_history(t0, None, scale, kind, _gen_op, rng, rng.randint(1, 12))
        except core.OffGrid:
            continue
        cases.append({"op": "hist", "tier": t0, "args": {"ops": ops}, "scale": sc})
    # histories on the grid of binary64 neighbours (tick 2m = m/10, 2m+1 its successor): boundaries one ulp apart either
    # way; only operations that create no new time values, so that every state stays on the grid and is judged exactly
    for _ in range(250 if tier == "quick" else 8000):
        kind = "I" if rng.random() < 0.8 else "P"
        t0 = gen.random_itier(rng, tmax=40, maxn=5) if kind == "I" else gen.random_ptier(rng, tmax=40, maxn=5)
        try:
            ops, _ = _run_history(t0, None, core.Scale("near", 1), kind, _gen_op_near, rng, rng.randint(1, 10))
        except core.OffGrid:
            continue
        cases.append({"op": "hist", "tier": t0, "args": {"ops": ops}, "scale": ["near", 1]})
    # two tiers built from the same entry list (a caller's own list of named tuples, tuples or lists), one of them edited
    for _ in range(150 if tier == "quick" else 5000):
        kind = "I" if rng.random() < 0.75 else "P"
        t0 = gen.random_itier(rng, tmax=40, maxn=5) if kind == "I" else gen.random_ptier(rng, tmax=40, maxn=5)
        cur, ops = t0, []
        for _k in range(rng.randint(1, 3)):
            o = _gen_op(rng, kind, cur, 40)
            while o["op"] not in ("insert", "delete"):
                o = _gen_op(rng, kind, cur, 40)
            ops.append(o)
        cases.append({"op": "sib", "tier": t0, "args": {"ops": ops, "etype": rng.choice(["nt", "nt", "tuple", "list"]), "same_name": rng.random() < 0.5},
                      "scale": gen.pick_scale(rng, decimal_share=0.0)})
    # constructors on raw binary64 values whose boundaries touch, nearly touch (1 ulp apart either way) or are
    # decimal sums such as 0.1+0.2 against 0.3: whatever is returned must be well-formed in exact comparison
    import math
    for _ in range(400 if tier == "quick" else 10000):
        kind = "I" if rng.random() < 0.75 else "P"
        n = rng.randint(1, 4)
        cuts = sorted(rng.sample(range(1, 400), 2 * n))
        vals = []
        for k, c in enumerate(cuts):
            x = c / 10.0 if rng.random() < 0.7 else (c // 10) / 10.0 + (c % 10) / 10.0
            vals.append(x)
        vals.sort()
        ents = []
        if kind == "I":
            prev_end = None
            for k in range(n):
                s, e = vals[2 * k], vals[2 * k + 1]
                if prev_end is not None and rng.random() < 0.6:
                    u = rng.random()
                    s = prev_end if u < 0.3 else (math.nextafter(prev_end, 0.0) if u < 0.7 else math.nextafter(prev_end, math.inf))
                if not s < e:
                    continue
                ents.append([s.hex(), e.hex(), rng.choice(["a", "b", "", " a ", "b\t", "\n a"])])
                prev_end = e
        else:
            for k in range(n):
                ents.append([vals[k].hex(), rng.choice(["a", "b", " a", "b \n"])])
        u = rng.random()
        lo = None if u < 0.4 else (0.0 if u < 0.8 else float.fromhex(ents[0][0]) if ents else 0.0)
        hi = None if rng.random() < 0.4 else 40.0
        if ents and rng.random() < 0.15:
            hi = math.nextafter(float.fromhex(ents[-1][-2]), 0.0)      # span 1 ulp short of the last entry
        cases.append({"op": "fctor", "tier": {"kind": kind, "name": "f", "entries": [], "min": 0, "max": 0},
                      "args": {"ops": [], "ents": ents, "mn": None if lo is None else lo.hex(), "mx": None if hi is None else hi.hex(),
                               "etype": rng.choice(["tuple", "list", "nt", "nt"]), "ctype": rng.choice(["list", "list", "tuple", "iter"])},
                      "scale": ["decimal", 1]})
    return cases


def _run_fctor(case):
    from praatio.data_classes.interval_tier import IntervalTier
    from praatio.data_classes.point_tier import PointTier
    a = case["args"]
    from praatio.utilities.constants import Interval, Point
    ents = [tuple([float.fromhex(x) for x in e[:-1]] + [e[-1]]) for e in a["ents"]]
    # the entry containers a caller may hand over: plain tuples, lists, the library's own named tuples
    if a.get("etype") == "list":
        ents = [list(e) for e in ents]
    elif a.get("etype") == "nt":
        ents = [(Interval(*e) if len(e) == 3 else Point(*e)) for e in ents]
    # ... and what holds them: a list, a tuple (the shape of tier.entries), a one-pass iterable
    if a.get("ctype") == "tuple":
        ents = tuple(ents)
    elif a.get("ctype") == "iter":
        ents = iter(ents)
    cls = IntervalTier if case["tier"]["kind"] == "I" else PointTier
    try:
        with core.captured_stdout():
            t = cls("f", ents, None if a["mn"] is None else float.fromhex(a["mn"]), None if a["mx"] is None else float.fromhex(a["mx"]))
    except Exception as e:  # noqa
        return [[core.err_kind(e), None, True, None]]
    with core.captured_stdout():
        v = bool(t.validate("silence"))
    return [[None, None, v, _rank_snap(t)]]


def _run_sib(case):
    """two tiers built from one and the same entry list; one is edited; both must be well-formed and the other unchanged"""
    from praatio.data_classes.interval_tier import IntervalTier
    from praatio.data_classes.point_tier import PointTier
    from praatio.utilities.constants import Interval, Point
    sc = core.Scale(*case["scale"])
    spec, a = case["tier"], case["args"]
    isI = spec["kind"] == "I"
    ents = [tuple([sc.f(x) for x in e[:-1]] + [e[-1]]) for e in spec["entries"]]
    if a["etype"] == "nt":
        ents = [(Interval(*e) if isI else Point(*e)) for e in ents]
    elif a["etype"] == "list":
        ents = [list(e) for e in ents]
    cls = IntervalTier if isI else PointTier
    one = cls(spec["name"], ents, sc.f(spec["min"]), sc.f(spec["max"]))
    two = cls(spec["name"] if a["same_name"] else "other", ents, sc.f(spec["min"]), sc.f(spec["max"]))
    was = core.raw_tier(two)
    kept = list(ents)
    probs = []
    with core.captured_stdout():
        for o in a["ops"]:
            try:
                tierops.apply_op(one, o["op"], o, sc, spec["kind"])
            except Exception:  # noqa
                pass
            for t, nm in ((one, "edited"), (two, "other")):
                if not _wf_exact(t):
                    probs.append("the %s tier is not well-formed after %s" % (nm, o["op"]))
    if core.raw_tier(two) != was:
        probs.append("editing one of two tiers built from the same entry list changed the other")
    if ents != kept:
        probs.append("editing a tier changed the entry list it was built from")
    return probs


def _wf_exact(t):
    es = list(t.entries)
    if len(es) and len(es[0]) == 3:
        ok = all(e[0] < e[1] for e in es) and all(x[1] <= y[0] for x, y in zip(es, es[1:]))
        ok = ok and all(t.minTimestamp <= e[0] and e[1] <= t.maxTimestamp for e in es)
    else:
        ok = all(x[0] <= y[0] for x, y in zip(es, es[1:])) and all(t.minTimestamp <= e[0] <= t.maxTimestamp for e in es)
    return ok and all(e[-1] == e[-1].strip() for e in es)


def run(case):
    if case["op"] == "sib":
        return core.run_guarded(lambda: _run_sib(case))
    if case["op"] == "fctor":
        return core.run_guarded(lambda: _run_fctor(case))
    sc = core.Scale(*case["scale"])

    def f():
        _, recs = _run_history(case["tier"], case["args"]["ops"], sc, case["tier"]["kind"])
        return recs
    return core.run_guarded(f)


def _copt(x):
    return "None" if x is None else "(Some %s)" % core.cz(x)


def _cop(kind, o):
    op = o["op"]
    I = kind == "I"
    if op == "crop":
        if I:
            return "(OpCrop %s %s %s %s)" % (core.cz(o["a"]), core.cz(o["b"]), tierops.CROP[o["mode"]], core.cbool(o["rebase"]))
        return "(PCrop %s %s %s)" % (core.cz(o["a"]), core.cz(o["b"]), core.cbool(o["rebase"]))
    if op == "erase":
        if I:
            return "(OpErase %s %s %s %s)" % (core.cz(o["a"]), core.cz(o["b"]), tierops.ERASE[o["mode"]], core.cbool(o["shrink"]))
        return "(PErase %s %s %s)" % (core.cz(o["a"]), core.cz(o["b"]), core.cbool(o["shrink"]))
    if op == "space":
        if I:
            return "(OpSpace %s %s %s)" % (core.cz(o["s"]), core.cz(o["d"]), tierops.SPACE[o["mode"]])
        return "(PSpace %s %s)" % (core.cz(o["s"]), core.cz(o["d"]))
    if op == "edit":
        return "(%s %s %s)" % ("OpEdit" if I else "PEdit", core.cz(o["o"]), tierops.REP[o["mode"]])
    if op == "insert":
        return "(%s %s %s)" % ("OpInsert" if I else "PInsert", core.cinterval(o["e"]) if I else core.cpoint(o["e"]), tierops.INS[o["mode"]])
    if op == "delete":
        return "(%s %s)" % ("OpDelete" if I else "PDelete", core.cinterval(o["e"]) if I else core.cpoint(o["e"]))
    if op in ("union", "difference", "intersection", "mergeLabels", "append"):
        nm = {"union": "Union", "difference": "Diff", "intersection": "Inter", "mergeLabels": "MergeLabels", "append": "Append"}[op]
        return "(%s%s %s)" % ("Op" if I else "P", nm, core.ctier(o["other"]))
    if op == "dejitter":
        return "(%sDejitter%s %s %s)" % ("Op" if I else "P", o["ref"]["kind"], core.ctier(o["ref"]), core.cz(o["d"]))
    if op == "morph":
        keep = "None" if o["filter"] is None else "(Some %s)" % core.clist([core.ctext(x) for x in o["filter"]], "text")
        return "(OpMorph %s %s)" % (core.citier(o["target"]), keep)
    if op == "new":
        return "OpNew" if I else "PNew"
    if op == "construct":
        ents = core.clist([core.cinterval(e) if I else core.cpoint(e) for e in o["entries"]], "interval" if I else "point")
        return "(%s %s %s %s %s)" % ("OpConstruct" if I else "PConstruct", core.ctext(o["name"]), ents, _copt(o["mn"]), _copt(o["mx"]))
    raise ValueError(op)


def emit(case, r):
    if "ok" not in r or case["op"] == "sib":
        return None
    kind = case["tier"]["kind"]
    ct = core.citier if kind == "I" else core.cptier
    if case["op"] == "fctor":
        err, _st, v, rk = r["ok"][0]
        if err is not None:
            return None
        return "States%s %s" % (kind, core.clist(["(%s, %s)" % (ct(rk), core.cbool(v))]))
    if case["scale"][0] in ("decimal", "near") or any(o.get("report") == "error" for o in case["args"]["ops"]):
        # states only: rounding (decimal grid) or the raise-after-insert of the undocumented reporting mode are not modelled
        return "States%s %s" % (kind, core.clist(["(%s, %s)" % (ct(rk), core.cbool(v)) for _, st, v, rk in r["ok"]]))
    items = []
    for o, (err, st, v, _rk) in zip(case["args"]["ops"], r["ok"]):
        # a mismatched tier type argument never reaches the model
        if o["op"] == "append" and o["other"]["kind"] != kind:
            return None
        items.append("(%s, (%s, %s, %s))" % (_cop(kind, o), "None" if err is None else "Some %s" % err, ct(st), core.cbool(v)))
    return "HistOps%s %s %s" % (kind, ct(case["tier"]), core.clist(items))


def model_expr(case):
    return None


def py_checks(case, r):
    if "ok" not in r:
        return ["history harness failed: %r" % (r,)]
    if case["op"] == "sib":
        return r["ok"]
    return []


def classify(case, r):
    if case["op"] == "sib":
        return "siblings/%s/%s" % (case["tier"]["kind"], case["args"]["etype"])
    if case["op"] == "fctor":
        return "fctor/%s/%s" % (case["tier"]["kind"], "raised" if r.get("ok", [[1]])[0][0] is not None else "built")
    nerr = sum(1 for x in r.get("ok", []) if x[0] is not None)
    return "hist/%s/%s/len%d/errors%d" % (case["tier"]["kind"], case["scale"][0], len(case["args"]["ops"]), min(nerr, 3))


def nontrivial(case, r):
    if case["op"] == "sib":
        return True
    if case["op"] == "fctor":
        return len(case["args"]["ents"]) >= 2
    return len(case["args"]["ops"]) >= 3 and any(x[0] is None for x in r.get("ok", []))


def shrinks(case):
    if case["op"] in ("fctor", "sib"):
        return
    ops = case["args"]["ops"]
    for k in range(len(ops) - 1, 0, -1):
        c = dict(case)
        c["args"] = {"ops": ops[:k]}
        yield c
    for k in range(len(ops)):
        c = dict(case)
        c["args"] = {"ops": ops[:k] + ops[k + 1:]}
        if c["args"]["ops"]:
            yield c


def finding_match(case, r, kind, why, findings):
    return None
