"""C14 -- dejitter, alignBoundariesAcrossTiers and morph move times only as far as allowed and keep labels."""
import sys
from .. import core, gen, tierops, tgops, obshist

ID = "C14"
MODULE = "Check.C14Check"
CASE_TYPE = "C14case"
CORR, ORACLE, HYP = "C14corr", "C14oracle", "C14hyp"
RULE = ("random wf interval/point tiers x reference tiers (interval or point; references at distance <, = and > maxDifference, "
        "equidistant candidates, none in range, empty) x maxDifference in 1..6 ticks on dyadic grids (razor edges exact); "
        "morph: pairs with equal and unequal counts x label filters over the label alphabet; .timestamps of both tier kinds; "
        "praatio_scripts.alignBoundariesAcrossTiers on multi-tier textgrids; non-trivial = tier and reference both non-empty")
EXPLANATION = ("Props/C14.v proves, for all inputs: the reference timestamps are strictly increasing; the nearest-reference choice "
               "(closest, earlier on ties); moved iff within maxDifference; adjusted times never cross; dejitter keeps count, order "
               "and labels and returns only well-formed tiers; morph keeps labels, gives selected intervals the target's durations, "
               "keeps gaps, first start and trailing gap, rejects unequal counts.  This run compares implementation output with model "
               "and with an independently written specification inside Coq; alignBoundariesAcrossTiers is compared tier by tier.")
TRUSTED = ["models: Tier/TierModel.v dejitter_i, dejitter_p, snap, nearest, timestamps_i/p, morph_i, morph_go",
           "my_math.lessThanOrEqual (isclose rel 1e-14) equals <= on the grids used"]
ASSUMPTIONS = ["dyadic grids only for dejitter thresholds (exact comparison at the inclusive edge)"]


def generate(tier, rng):
    cases = []
    n = 2500 if tier == "quick" else 60000
    for _ in range(n):
        sc = list(rng.choice(gen.SCALES_DYADIC))
        kind = "I" if rng.random() < 0.65 else "P"
        t = gen.random_itier(rng, tmax=40, maxn=6) if kind == "I" else gen.random_ptier(rng, tmax=40, maxn=6)
        u = rng.random()
        if u < 0.6:
            ref = gen.random_itier(rng, tmax=40, maxn=5, name="r", long_p=0.06) if rng.random() < 0.5 else \
                gen.random_ptier(rng, tmax=40, maxn=6, name="r", long_p=0.06)
            if rng.random() < 0.05:
                ref["entries"] = []
            if len(ref["entries"]) > 30:
                # a long reference: times of the tier around its first, its last and some middle reference times
                rts = sorted(set(v for e in ref["entries"] for v in e[:-1]))
                spots = [rts[0], rts[1], rts[1], rts[-1], rts[-2], rng.choice(rts), rng.choice(rts)]
                want = set(max(0, x + rng.choice([-2, -1, -1, 0, 1, 1, 2])) for x in rng.sample(spots, 4))
                if rng.random() < 0.6:
                    want.add(max(0, rts[1] - 1))          # between the first two reference times, nearer the second
                want = sorted(want)
                if kind == "P":
                    t = dict(t, entries=[[x, "q%d" % i] for i, x in enumerate(want)], min=min(t["min"], want[0]), max=max(t["max"], want[-1]))
                else:
                    ents = [[want[i], want[i + 1], "q%d" % i] for i in range(0, len(want) - 1, 2) if want[i] < want[i + 1]]
                    t = dict(t, entries=ents, min=min([t["min"]] + [e[0] for e in ents]), max=max([t["max"]] + [e[1] for e in ents]))
            if t["entries"] and rng.random() < 0.5 and ref["kind"] == "P":
                # plant references exactly d away / equidistant
                d = rng.randint(1, 4)
                x = rng.choice([v for e in t["entries"] for v in e[:-1]])
                ref["entries"] = sorted([[x - d, "r"], [x + d, "r"]] + ref["entries"][:2])
                ref["min"] = min(ref["min"], x - d)
                ref["max"] = max(ref["max"], x + d)
                cases.append({"op": "dejitter", "tier": t, "args": {"ref": ref, "d": rng.choice([d, d - 1, d + 1])}, "scale": sc})
            else:
                cases.append({"op": "dejitter", "tier": t, "args": {"ref": ref, "d": rng.randint(1, 6)}, "scale": sc})
        elif u < 0.7:
            cases.append({"op": "timestamps", "tier": t, "args": {}, "scale": sc})
        else:
            t = gen.random_itier(rng, tmax=40, maxn=6)
            n_e = len(t["entries"])
            if rng.random() < 0.8:
                ents, x = [], rng.randint(0, 3)
                for _k in range(n_e):
                    dd = rng.randint(1, 6)
                    ents.append([x, x + dd, rng.choice(["g", "a"])])
                    x += dd + rng.randint(0, 3)
                tg = {"kind": "I", "name": "g", "entries": ents, "min": 0, "max": x + 2}
            else:
                tg = gen.random_itier(rng, tmax=40, maxn=6, name="g")
            keep = None if rng.random() < 0.4 else rng.sample(gen.LABELS, rng.randint(0, 4))
            cases.append({"op": "morph", "tier": t, "args": {"target": tg, "filter": keep},
                          "scale": gen.pick_scale(rng, decimal_share=0.3)})
    # two references that differ in one time only, one after the other in the same process (-1 and -2 are the classic
    # pair of different numbers with the same hash)
    for _ in range(40 if tier == "quick" else 1500):
        kind = "I" if rng.random() < 0.6 else "P"
        t = gen.random_itier(rng, tmax=20, maxn=4) if kind == "I" else gen.random_ptier(rng, tmax=20, maxn=4)
        t = gen.shift_tier(t, -3)
        ref = gen.random_ptier(rng, tmax=20, maxn=4, name="r")
        a, b = rng.choice([(-1, -2), (-2, -1), (-1, -2), (1, 2)])
        for x in (a, b):
            ref["entries"] = [e for e in ref["entries"] if e[0] != x]
        d = rng.randint(1, 3)
        for x in (a, b):
            r2 = dict(ref, entries=sorted(ref["entries"] + [[x, "r"]]), min=min(ref["min"], -3), max=ref["max"])
            cases.append({"op": "dejitter", "tier": t, "args": {"ref": r2, "d": d}, "scale": ["dyadic", 0]})
    for _ in range(300 if tier == "quick" else 4000):
        tiers = []
        # names that contain one another (a tier is selected by its name, not by a part of it)
        pool = rng.sample(["words", "word", "w", "ord", "phones", "phone"], 4) if rng.random() < 0.5 else None
        for k in range(rng.randint(2, 4)):
            t = gen.random_itier(rng, name="i%d" % k, tmax=60, maxn=4) if rng.random() < 0.6 else gen.random_ptier(rng, name="p%d" % k, tmax=60, maxn=4)
            if pool:
                t["name"] = pool[k]
            t["min"], t["max"] = 0, 60
            tiers.append(t)
        cases.append({"op": "align", "tiers": tiers, "args": {"ref": rng.choice(tiers)["name"], "d": rng.randint(1, 3)},
                      "scale": list(rng.choice(gen.SCALES_DYADIC))})
    # jitter of one ulp: times that differ from a reference time only in the last bit are within any positive
    # maxDifference and must come out exactly on the reference time (grid of binary64 neighbours, maxDifference 0.05)
    for _ in range(300 if tier == "quick" else 5000):
        ref = gen.random_itier(rng, name="ref", tmax=30, maxn=4) if rng.random() < 0.6 else gen.random_ptier(rng, name="ref", tmax=30, maxn=4)
        odd = {}
        for e in ref["entries"]:
            for k in range(len(e) - 1):
                # the reference time itself may be the odd neighbour (one choice per time: touching entries stay touching)
                if e[k] not in odd:
                    odd[e[k]] = 1 if rng.random() < 0.3 else 0
                e[k] = 2 * e[k] + odd[e[k]]
        ref["min"], ref["max"] = 0, 60
        rt = sorted(set(x for e in ref["entries"] for x in e[:-1]))
        tiers = [ref]
        for j in range(rng.randint(1, 2)):
            if rng.random() < 0.5 and len(rt) >= 2:
                ks = sorted(rng.sample(rt, 2 * (len(rt) // 2)))
                ents = [[ks[i] - ks[i] % 2 + rng.choice([0, 1]), ks[i + 1] - ks[i + 1] % 2 + rng.choice([0, 1]), "l%d" % i] for i in range(0, len(ks), 2)]
                ents = [e for e in ents if e[0] < e[1]]
                t = {"kind": "I", "name": "i%d" % j, "entries": ents, "min": 0, "max": 60}
            else:
                ents = [[x - x % 2 + rng.choice([0, 1, 1]), "m"] for x in rt]
                t = {"kind": "P", "name": "p%d" % j, "entries": ents, "min": 0, "max": 60}
            tiers.append(t)
        rng.shuffle(tiers)
        cases.append({"op": "align", "tiers": tiers, "args": {"ref": "ref", "d": 0, "dfloat": 0.05}, "scale": ["near", 1]})
    return cases


def run(case):
    sc = core.Scale(*case["scale"])
    op = case["op"]
    if op == "morph":
        return tierops.run_single(case)
    if op == "dejitter":
        def f():
            t = core.mk_tier(case["tier"], sc)
            ref = core.mk_tier(case["args"]["ref"], sc)
            refs = [core.tk(x, sc) for x in ref.timestamps]
            try:
                r = {"ok": core.snap_tier(t.dejitter(ref, sc.f(case["args"]["d"])), sc)}
            except core.OffGrid:
                raise
            except Exception as e:  # noqa
                r = {"err": core.err_kind(e)}
            return {"refs": refs, "res": r}
        return core.run_guarded(f)
    if op == "timestamps":
        def g():
            t = core.mk_tier(case["tier"], sc)
            return [core.tk(x, sc) for x in t.timestamps]
        return core.run_guarded(g)
    from praatio.data_classes.textgrid import Textgrid
    from praatio import praatio_scripts

    def h():
        tg = Textgrid()
        built = [core.mk_tier(t, sc) for t in case["tiers"]]
        for x in built:
            tg.addTier(x, reportingMode="silence")
        refname = case["args"]["ref"]
        ref = tg.getTier(refname)
        d = case["args"].get("dfloat") or sc.f(case["args"]["d"])
        per = []
        for x in built:
            if x.name == refname:
                per.append({"ok": core.snap_tier(x, sc)})
            else:
                try:
                    per.append({"ok": core.snap_tier(x.dejitter(ref, d), sc)})
                except Exception as e:  # noqa
                    per.append({"err": core.err_kind(e)})
        try:
            r = praatio_scripts.alignBoundariesAcrossTiers(tg, refname, d)
        except Exception as e:  # noqa
            return {"per_tier": per, "align_err": core.err_kind(e), "exc": "%s: %s" % (type(e).__name__, e)}
        return {"names": list(r.tierNames), "tiers": [core.snap_tier(x, sc) for x in r.tiers], "per_tier": per,
                "min": core.tk(r.minTimestamp, sc), "max": core.tk(r.maxTimestamp, sc)}
    return core.run_guarded(h)


def _zl(l):
    return core.clist([core.cz(x) for x in l], "Z")


def emit(case, r):
    op = case["op"]
    t = case["tier"] if "tier" in case else None
    if op == "align":
        # the textgrid that came back against the script-level model, on exact grids
        if case["scale"][0] != "dyadic" or "ok" not in r or case["args"].get("dfloat"):
            return None
        v = r["ok"]
        tiers = case["tiers"]
        g = tgops.ctg({"tiers": tiers, "min": min(t["min"] for t in tiers), "max": max(t["max"] for t in tiers)})
        if "align_err" in v:
            out = "(Err %s)" % v["align_err"]
        else:
            out = "(Ok %s)" % tgops.ctg({"tiers": v["tiers"], "min": v["min"], "max": v["max"]})
        return "TgAlignC %s %s %s %s" % (g, core.ctext(case["args"]["ref"]), core.cz(case["args"]["d"]), out)
    if op == "timestamps":
        if "ok" not in r:
            return None
        return "Timestamps%s %s %s" % (t["kind"], core.ctier(t), _zl(r["ok"]))
    if op == "dejitter":
        if "ok" not in r:
            return None
        ct = core.citier if t["kind"] == "I" else core.cptier
        return "Dej%s %s %s %s %s" % (t["kind"], ct(t), _zl(r["ok"]["refs"]), core.cz(case["args"]["d"]), core.cres(r["ok"]["res"], ct))
    keep = case["args"]["filter"]
    ck = "None" if keep is None else "(Some %s)" % core.clist([core.ctext(x) for x in keep], "text")
    return "Morph %s %s %s %s" % (core.citier(t), core.citier(case["args"]["target"]), ck, core.cres(r, core.citier))


def model_expr(case):
    return None


def py_checks(case, r):
    op = case["op"]
    if op in ("dejitter", "timestamps") and "ok" not in r:
        return ["harness failed: %r" % (r,)]
    if op != "align":
        return []
    if "ok" not in r:
        return ["harness failed: %r" % (r,)]
    v = r["ok"]
    if "align_err" in v:
        # allowed: the documented ArgumentError (maxDifference too large for the reference tier), or the same
        # error that dejitter alone raises for one of the tiers (empty reference, collapsing adjustment)
        per_errs = [x["err"] for x in v["per_tier"] if "err" in x]
        if v["align_err"] == "ArgumentError" or v["align_err"] in per_errs:
            return []
        return ["alignBoundariesAcrossTiers raised %s although every tier's own dejitter succeeds" % v["exc"]]
    fails = []
    if v["names"] != [t["name"] for t in case["tiers"]]:
        fails.append("tier names/order changed")
    if case["scale"][0] == "near":
        # independent expectation: every time one ulp off a reference time lands exactly on it
        ref = [t for t in case["tiers"] if t["name"] == case["args"]["ref"]][0]
        rt = set(x for e in ref["entries"] for x in e[:-1])
        for t, got in zip(case["tiers"], v["tiers"]):
            if t["name"] == case["args"]["ref"]:
                continue
            def snap(x):
                # the binary64 neighbour of x (the other tick of its pair) is a reference time: x lands on it
                other = x + 1 if x % 2 == 0 else x - 1
                return other if (x not in rt and other in rt) else x
            want = [[snap(x) for x in e[:-1]] + [e[-1]] for e in t["entries"]]
            if got["entries"] != want:
                fails.append("tier %s: times one ulp off a reference time were not moved onto it: %r, expected %r" % (t["name"], got["entries"][:3], want[:3]))
    for nm, got, exp in zip(v["names"], v["tiers"], v["per_tier"]):
        if "ok" not in exp:
            fails.append("tier %s: dejitter alone raises %s but align returned" % (nm, exp))
        elif got != exp["ok"]:
            fails.append("tier %s differs from %s" % (nm, "the untouched reference tier" if nm == case["args"]["ref"] else "its own dejitter"))
    return fails


def classify(case, r):
    op = case["op"]
    if op == "dejitter" and "ok" in r:
        rr = r["ok"]["res"]
        out = "err:" + rr["err"] if "err" in rr else "ok"
        return "dejitter/%s/ref%s/%s" % (case["tier"]["kind"], case["args"]["ref"]["kind"], out)
    out = "err:" + r["err"] if "err" in r else ("offgrid" if "offgrid" in r else "ok")
    return "%s/%s" % (op, out)


def nontrivial(case, r):
    if case["op"] == "dejitter":
        return bool(case["tier"]["entries"]) and bool(case["args"]["ref"]["entries"])
    if case["op"] == "morph":
        return bool(case["tier"]["entries"])
    return True


def shrinks(case):
    if "tier" not in case:
        return
    for t2 in gen.shrink_tier(case["tier"]):
        c = dict(case)
        c["tier"] = t2
        yield c


def finding_match(case, r, kind, why, findings):
    return None


def _obs_term(kind, state, st, res):
    if st["op"] == "timestamps":
        if "ok" not in res:
            return None
        return "Timestamps%s %s %s" % (kind, (core.citier if kind == "I" else core.cptier)(state), _zl(res["ok"]["list"]))
    # the history tier is the REFERENCE: its timestamps, computed here from its current entries
    times = sorted(set(x for e in state["entries"] for x in e[:-1]))
    o = st["args"]["other"]
    ct = core.citier if o["kind"] == "I" else core.cptier
    return "Dej%s %s %s %s %s" % (o["kind"], ct(o), _zl(times), core.cz(st["args"]["d"]), obshist.res_tier(res, ct))


obshist.install(sys.modules[__name__], ["timestamps", "dejref"], ["timestamps", "dejref"], _obs_term)
