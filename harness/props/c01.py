"""C01 -- TextGrid save/open round trip preserves every tier, time and label."""
import math
import os
import shutil
from .. import core, iogen

ID = "C01"
MODULE = "Check.IoCheck"
CASE_TYPE = "IOcase"
CORR, ORACLE, HYP = "IOcorr", "IOtrue", "C01hyp"
FORMATS = ["short_textgrid", "long_textgrid", "json", "textgrid_json"]
RULE = ("small scope: every trimmed label/name of length <=3 (quick) / <=4 (thorough) over {a, quote, space, newline, =} in an "
        "interval, a point and a name position x short/long format; random textgrids (1-4 tiers, both kinds; labels over letters, "
        "digits, quotes, doubled quotes, newlines, =, brackets, non-ASCII incl. U+00A0/U+2003, astral) x times from {0, 1e-17..1e15 "
        "log-uniform, integers, n+-1ulp, n(1+-1e-14), dyadic, 1-17 digit decimals} x 4 formats x includeBlankSpaces x "
        "includeEmptyIntervals; written text compared with the writer model, parsed dictionary with the reader model (in Coq); the "
        "round trip itself judged on the real save/openTextgrid; non-trivial = some tier has entries")
EXPLANATION = ("Props/C01.v proves, for all labels (quotes, doubled quotes, newlines, = and digits included), that un-doubling the "
               "doubled form is the identity, that the short-form text-row reader stops exactly at the closing quote of an escaped "
               "label and returns it, and that the long-form text-field scanner returns an escaped label.  This run ties the writer "
               "and reader models to /repo (exact text / exact dictionary, evaluated in Coq) and decides the round trip clause on "
               "the real Textgrid.save / openTextgrid: same names, order, types, labels character for character; each time "
               "bit-identical or a near-integer; re-saved text identical; plain json exempt on tier spans.")
TRUSTED = ["models: IO/IoModel.v print_short, print_long, prep_tg, parse_short, parse_long and the per-regex scanners",
           "CPython float.__repr__/float() round trip, '%d', json.dumps/json.loads, utf-8 codec, io.open: runtime library behaviour",
           "numbers are opaque tokens: the harness supplies near-int flag, '%d' and repr() forms computed independently of praatio"]
ASSUMPTIONS = ["whole-file round trip is decided by evaluation on the implementation; the theorems cover the field-level codecs",
               "names/labels containing the formats' own keywords are excluded here (known finding F3) and exercised in C02"]
SMALL = ["a", '"', " ", "\n", "="]


def _times(rng, n):
    """n+1 increasing non-negative floats of exotic shapes."""
    out = set()
    while len(out) < n + 1:
        u = rng.random()
        if u < 0.2:
            x = float(rng.randint(0, 10 ** rng.randint(1, 15)))
        elif u < 0.3:
            base = float(rng.randint(1, 10 ** 6))
            x = math.nextafter(base, rng.choice([0.0, math.inf]))
        elif u < 0.4:
            base = float(rng.randint(1, 10 ** 6))
            x = base * (1 + rng.choice([-1, 1]) * rng.choice([0.5e-14, 1e-14, 2e-14, 1e-13]))
        elif u < 0.55:
            x = rng.randint(0, 2 ** 20) / 2 ** rng.randint(0, 20)
        elif u < 0.75:
            x = float("%d.%s" % (rng.randint(0, 999), "".join(rng.choice("0123456789") for _ in range(rng.randint(1, 17)))))
        elif u < 0.8:
            x = 0.0
        else:
            x = 10 ** rng.uniform(-17, 15)
        out.add(x)
    return sorted(out)


def _times_big(rng, n):
    """n+1 increasing times far from 0 (recordings stamped with clock time, sample counts ...), half-way between integers,
    a few binary64 steps apart but never closer than 1.2e-7 s: relative to their size they are almost equal, in absolute
    terms every interval between them is well above the default minimumIntervalLength"""
    base = rng.choice([2.0 ** 31, 1.7e9, 3.0e7, 1e12, 1e13, 5e10]) + 0.5
    u = math.ulp(base)
    k0 = max(1, math.ceil(1.2e-7 / u))
    out = [base]
    taken = set()          # integers some value is written as (known finding F23: no second value may share one; corpus/C01 does)
    while len(out) < n + 1:
        x = out[-1] + u * rng.randint(k0, k0 + 40)
        tk = iogen.token(x)
        while tk["near_int"] and tk["int_str"] in taken:
            x += u * rng.randint(k0, k0 + 40)
            tk = iogen.token(x)
        if tk["near_int"]:
            taken.add(tk["int_str"])
        out.append(x)
    return out


def _float_dtg(rng, kw_share=0.0, big=False):
    """textgrid with arbitrary float times, encoded by rank ticks + value table."""
    n = rng.randint(2, 12) if rng.random() < 0.94 else rng.randint(16, 26)     # now and then room for 10+ entries in one tier
    vals = _times_big(rng, n) if big else _times(rng, n)
    g = iogen.rand_dtg(rng, n, kw_share=kw_share)
    return g, vals


def _small_cases(rng, tier):
    import itertools
    maxlen = 3 if tier == "quick" else 4
    labs = set()
    for k in range(0, maxlen + 1):
        for tup in itertools.product(SMALL, repeat=k):
            labs.add("".join(tup).strip())
    labs = sorted(labs)
    if tier == "quick":
        labs = rng.sample(labs, min(len(labs), 110))
    cases = []
    for lab in labs:
        nm = lab.replace("\n", " ").strip() or "n"
        g = {"xmin": 0, "xmax": 4, "tiers": [
            {"isint": True, "name": nm, "xmin": 0, "xmax": 4, "entries": [[0, 1, lab], [2, 3, "k"]]},
            {"isint": False, "name": "p" + nm, "xmin": 0, "xmax": 4, "entries": [[1, lab], [2, "z"]]}]}
        for fmt in ("short_textgrid", "long_textgrid"):
            cases.append({"op": "rt", "g": g, "vals": [0.0, 0.5, 1.25, 2.0, 3.5], "fmt": fmt, "blanks": True, "empty": rng.random() < 0.5,
                          "scale": ["rank", 0]})
    return cases


def generate(tier, rng):
    cases = _small_cases(rng, tier)
    n = 1200 if tier == "quick" else 40000
    for _ in range(n):
        big = rng.random() < 0.1
        g, vals = _float_dtg(rng, big=big)
        fmt, blanks = rng.choice(FORMATS), rng.random() < (0.8 if big else 0.5)
        empty = rng.random() < 0.5
        if rng.random() < 0.3 and fmt != "json":
            # a tier may span less than its textgrid (point tiers always; interval tiers when no blanks are filled in
            # or the filled-in blanks are dropped again on reading: blank filling pads the entries, not the tier's span)
            for t in g["tiers"]:
                if (not t["isint"] or not blanks or not empty) and rng.random() < 0.7:
                    lo = t["entries"][0][0] if t["entries"] else g["xmax"]
                    hi = t["entries"][-1][-2] if t["entries"] else g["xmin"]
                    t["xmin"] = rng.randint(g["xmin"], min(lo, g["xmax"]))
                    t["xmax"] = rng.randint(max(hi, t["xmin"]), g["xmax"])
        # far: no two times are closer than the default threshold, so saving with the default absorbs nothing either
        cases.append({"op": "rt", "g": g, "vals": vals, "fmt": fmt, "blanks": blanks, "defthr": rng.random() < (0.8 if big else 0.5),
                      "far": big, "empty": empty, "scale": ["rank", 0]})
    return cases


def _snap(tg):
    return {"names": list(tg.tierNames),
            "types": [t.tierType for t in tg.tiers],
            "spans": [(float(t.minTimestamp).hex(), float(t.maxTimestamp).hex()) for t in tg.tiers],
            "tgspan": (float(tg.minTimestamp).hex(), float(tg.maxTimestamp).hex()),
            "entries": [[tuple(float(x).hex() for x in e[:-1]) + (e[-1],) for e in t.entries] for t in tg.tiers]}


def _near(a_hex, b_hex):
    a, b = float.fromhex(a_hex), float.fromhex(b_hex)
    if a == b:
        return True
    return b == int(b) and iogen.isclose14(a, b)


def _rdict(d):
    """parseTextgridStr dictionary -> canonical structure with tokens as text."""
    tiers = []
    for t in d["tiers"]:
        ents = [[str(x) for x in e[:-1]] + [e[-1]] for e in t["entries"]]
        tiers.append({"isint": t["class"] == "IntervalTier", "name": t["name"], "xmin": t["xmin"], "xmax": t["xmax"], "entries": ents})
    return {"xmin": d["xmin"], "xmax": d["xmax"], "tiers": tiers}


def run(case):
    from praatio import textgrid as tgmod
    from praatio.utilities import textgrid_io
    vals = case["vals"]
    tof = lambda k: vals[k]  # noqa
    d = os.path.join(core.VERIF, ".work", "c01.%d" % os.getpid())
    os.makedirs(d, exist_ok=True)
    fn = core.fname(os.path.join(d, "rt.TextGrid"))
    fn2 = core.fname(os.path.join(d, "rt2.TextGrid"))

    def f():
        tg = iogen.build_tg(case["g"], tof)
        fmt, blanks = case["fmt"], case["blanks"]
        # with blank filling off nothing may be absorbed, whatever the threshold: use the default there
        kw = {} if (case.get("defthr") and (not blanks or case.get("far"))) else {"minimumIntervalLength": None}
        before = _snap(tg)
        tg.save(fn, fmt, blanks, **kw)
        with open(fn, "r", encoding="utf-8", newline="") as fh:
            text1 = fh.read()
        early = []
        if _snap(tg) != before:
            early.append("save changed the textgrid it was called on")
        # the same object saved again, with the other blank-filling setting in between, writes the same file
        tg.save(fn2, fmt, not blanks, **({"minimumIntervalLength": None} if not blanks else {}))
        tg.save(fn2, fmt, blanks, **kw)
        with open(fn2, "r", encoding="utf-8", newline="") as fh:
            if fh.read() != text1:
                early.append("saving the same textgrid a second time wrote a different file")
        out = {"text": text1 if fmt in ("short_textgrid", "long_textgrid") else None}
        if fmt == "json":
            # the two dictionary conversions behind the plain json format, on this textgrid's own dictionary
            from praatio.data_classes.textgrid import _tgToDictionary
            rank = {float(v): k for k, v in enumerate(vals)}

            def ents(es):
                return [[rank[float(x)] for x in e[:-1]] + [e[-1]] for e in es]
            down = textgrid_io._downconvertDictionaryForJson(_tgToDictionary(tg))
            up = textgrid_io._upconvertDictionaryFromJson(down)
            out["jsonconv"] = {
                "down": {"start": rank[float(down["start"])], "end": rank[float(down["end"])],
                         "tiers": [[nm, t["type"] == "IntervalTier", ents(t["entries"])] for nm, t in down["tiers"].items()]},
                "up": {"xmin": rank[float(up["xmin"])], "xmax": rank[float(up["xmax"])],
                       "tiers": [{"isint": t["class"] == "IntervalTier", "name": t["name"], "xmin": rank[float(t["xmin"])],
                                  "xmax": rank[float(t["xmax"])], "entries": ents(t["entries"])} for t in up["tiers"]]}}
        # what the text reader returns for this text (dictionary level)
        if out["text"] is not None:
            try:
                pd = textgrid_io.parseTextgridStr(text1, case["empty"])
                out["parsed"] = _rdict({"xmin": pd["xmin"], "xmax": pd["xmax"],
                                        "tiers": [dict(t, entries=list(t["entries"])) for t in pd["tiers"]]})
            except Exception as e:  # noqa
                out["parse_err"] = core.err_kind(e)
        # the property: reopen, compare, re-save
        problems = list(early)
        try:
            tg2 = tgmod.openTextgrid(fn, case["empty"])
            a, b = _snap(tg), _snap(tg2)
            if a["names"] != b["names"]:
                problems.append("tier names/order differ: %r vs %r" % (a["names"], b["names"]))
            elif a["types"] != b["types"]:
                problems.append("tier types differ")
            else:
                for k, (ea, eb) in enumerate(zip(a["entries"], b["entries"])):
                    # what the file is allowed to add/drop: blank intervals (flags)
                    fa = [e for e in ea if e[-1] != ""] if (not case["empty"] or blanks) else ea
                    fb = [e for e in eb if e[-1] != ""] if (not case["empty"] or blanks) else eb
                    if len(fa) != len(fb):
                        problems.append("tier %d: %d labelled entries became %d" % (k, len(fa), len(fb)))
                        continue
                    for x, y in zip(fa, fb):
                        if x[-1] != y[-1]:
                            problems.append("tier %d: label %r came back as %r" % (k, x[-1], y[-1]))
                        elif not all(_near(p, q) for p, q in zip(x[:-1], y[:-1])):
                            problems.append("tier %d: times %r came back as %r" % (k, x[:-1], y[:-1]))
                if fmt != "json":
                    for k, (sa, sb) in enumerate(zip(a["spans"], b["spans"])):
                        if not (_near(sa[0], sb[0]) and _near(sa[1], sb[1])):
                            problems.append("tier %d: span %r came back as %r" % (k, sa, sb))
                if not (_near(a["tgspan"][0], b["tgspan"][0]) and _near(a["tgspan"][1], b["tgspan"][1])):
                    problems.append("textgrid span changed")
            # fixed point: re-saving the reopened textgrid reproduces the text (blank intervals are kept iff read)
            g = case["g"]
            narrow_padded = blanks and any(t["isint"] and (t["xmin"], t["xmax"]) != (g["xmin"], g["xmax"]) for t in g["tiers"])
            user_blanks = any(any(e[-1].strip() == "" for e in t["entries"]) for t in g["tiers"])
            if not narrow_padded:
                tg3 = tgmod.openTextgrid(fn, True)
            elif not user_blanks:
                # the padding lies outside the tier's own span: read without it, it is filled in again on saving
                tg3 = tgmod.openTextgrid(fn, False)
            else:
                tg3 = None
            if tg3 is not None:
                tg3.save(fn2, fmt, blanks, minimumIntervalLength=None)
                with open(fn2, "r", encoding="utf-8", newline="") as fh:
                    text2 = fh.read()
                if text2 != text1:
                    problems.append("re-saved text differs from the first file")
        except Exception as e:  # noqa
            problems.append("reopening raised %s: %s" % (type(e).__name__, str(e)[:120]))
        out["problems"] = problems
        return out
    try:
        return core.run_guarded(f)
    finally:
        shutil.rmtree(d, ignore_errors=True)


def _prepared(case):
    """the data the writer sees after _prepTgForSaving with thr=None, computed by the Coq model: emitted as a term"""
    return None


def emit(case, r):
    return None      # replaced by emit_multi


def emit_multi(case, r):
    """Several Coq cases per input: writer text and reader dictionary."""
    if "ok" in r and r["ok"].get("jsonconv"):
        jc = r["ok"]["jsonconv"]
        d = jc["down"]
        jt = core.clist(["(%s, mkJT %s %s)" % (core.ctext(nm), core.cbool(isint), core.clist([iogen.cdentry(e) for e in es], "dentry"))
                         for nm, isint, es in d["tiers"]], "(text * jtier)")
        return ["JsonConvC %s (mkJTG %s %s %s) %s" % (iogen.cdtg(case["g"]), core.cz(d["start"]), core.cz(d["end"]), jt, iogen.cdtg(jc["up"]))]
    if "ok" not in r or r["ok"].get("text") is None:
        return []
    v = r["ok"]
    g = case["g"]
    vals = case["vals"]
    tab = iogen.cnumtab(iogen.all_ticks(g), lambda k: vals[k])
    terms = ["SaveText %s %s None None None %s %s (Ok %s)" % (core.cbool(case["fmt"] == "long_textgrid"), core.cbool(case["blanks"]),
                                                               tab, iogen.cdtg(g), core.ctext(v["text"]))]
    if "parsed" in v:
        p = v["parsed"]
        rt = {"xmin": _numtxt(p["xmin"]), "xmax": _numtxt(p["xmax"]),
              "tiers": [dict(t, xmin=_numtxt(t["xmin"]), xmax=_numtxt(t["xmax"])) for t in p["tiers"]]}
        terms.append("ParseTextN %s %s %s (Ok %s)" % (core.cbool(case["empty"]), core.ctext(v["text"]), iogen.ccanon(v["text"]), iogen.crtg(rt)))
    elif "parse_err" in v:
        terms.append("ParseTextN %s %s %s (Err %s)" % (core.cbool(case["empty"]), core.ctext(v["text"]), iogen.ccanon(v["text"]), v["parse_err"]))
    return terms


def _numtxt(x):
    """tier-level numbers are converted by the reader (float / int): compare by value through repr(float())"""
    return repr(float(x) + 0.0)


def model_expr(case):
    return None


def py_checks(case, r):
    if "ok" not in r:
        return ["save raised %s" % r.get("exc", r)]
    return list(r["ok"]["problems"])


def classify(case, r):
    out = "err:" + r["err"] if "err" in r else "ok"
    return "%s/blanks=%s/empty=%s/%s" % (case["fmt"], case["blanks"], case["empty"], out)


def nontrivial(case, r):
    return any(t["entries"] for t in case["g"]["tiers"])


def shrinks(case):
    g = case["g"]
    for k in range(len(g["tiers"])):
        if len(g["tiers"]) > 1:
            c = dict(case)
            c["g"] = dict(g, tiers=g["tiers"][:k] + g["tiers"][k + 1:])
            yield c
    for k, t in enumerate(g["tiers"]):
        for j in range(len(t["entries"])):
            t2 = dict(t, entries=t["entries"][:j] + t["entries"][j + 1:])
            c = dict(case)
            c["g"] = dict(g, tiers=g["tiers"][:k] + [t2] + g["tiers"][k + 1:])
            yield c
        for j, e in enumerate(t["entries"]):
            if len(e[-1]) > 1:
                for cut in (e[-1][1:], e[-1][:-1]):
                    ents = [list(x) for x in t["entries"]]
                    ents[j][-1] = cut.strip()
                    t2 = dict(t, entries=ents)
                    c = dict(case)
                    c["g"] = dict(g, tiers=g["tiers"][:k] + [t2] + g["tiers"][k + 1:])
                    yield c


def finding_match(case, r, kind, why, findings):
    for f in findings:
        pred = f.get("matcher", {}).get("pred")
        if pred == "exponent_time_long_format" and case["fmt"] == "long_textgrid":
            if any("e" in repr(float(v)) for v in case["vals"]):
                return f["id"]
        if pred == "distinct_times_same_integer" and case["fmt"] in ("short_textgrid", "long_textgrid"):
            # F23: two different times of this textgrid are both written as the same integer (each is within 1e-14,
            # relative, of it), and what fails is the reopening / the times that come back -- nothing else is excused
            used = sorted(set(case["vals"][k] for k in iogen.all_ticks(case["g"])))
            ints = {}
            for v in used:
                tk = iogen.token(v)
                if tk["near_int"]:
                    ints.setdefault(tk["int_str"], set()).add(v)
            collapsed = any(len(vs) > 1 for vs in ints.values())
            expected = ("reopening raised TextgridStateError", "came back as", "labelled entries became", "span changed")
            if collapsed and all(any(e in part for e in expected) for part in why.split("; ")):
                return f["id"]
    return None
