"""C15 -- queries and derived views agree with their definitions."""
import re
import sys
from .. import core, gen, obshist

ID = "C15"
MODULE = "Check.C15Check"
CASE_TYPE = "C15case"
CORR, ORACLE, HYP = "C15corr", "C15oracle", "C15hyp"
RULE = ("random wf tiers x query labels/substrings over the label alphabet (regex variant judged by re.search in the harness); "
        "getNonEntries; sample series sorted and shuffled with ties and on-boundary samples for getValuesInIntervals / "
        "getValuesAtPoints (exact, fuzzy); intervalOverlapCheck over all order types of two intervals on 0..6 x thresholds; "
        "invertIntervalList on sorted/shuffled/touching/overlapping lists x bounds; validate() on tiers corrupted through their "
        "attributes; equality under every single-field perturbation; non-trivial = the tier / list has entries")
EXPLANATION = ("Props/C15.v proves the find clauses, the tiling by getNonEntries, that timestamps is a strictly sorted set, the "
               "getValuesInIntervals filter, exact getValueAtTime on sorted data, intervalOverlapCheck with default and time "
               "thresholds, and that validate() is True exactly on sorted, positive, non-overlapping, in-span lists.  Fuzzy nearest "
               "matching, the complement helper, percent thresholds, the regex variant of find and the equality clauses are "
               "decided by evaluation against definitions written from the property text.")
TRUSTED = ["models: Tier/QueryModel.v, Tier/TierModel.v find_i/find_p, non_entries, values_in_intervals, validate_i/validate_p",
           "re.findall with re.I (regex variant of find) is runtime behaviour: judged by an independent re.search call"]
ASSUMPTIONS = ["sample payloads are integers (ids); times on dyadic grids"]


def _rows(rng, n, tmax, ties=True):
    rows = []
    for k in range(n):
        rows.append([rng.randint(0, tmax), k])
    if ties and rows and rng.random() < 0.5:
        rows.append([rows[0][0], len(rows)])
    return rows


def generate(tier, rng):
    cases = []
    n = 3000 if tier == "quick" else 80000
    for _ in range(n):
        sc = list(rng.choice(gen.SCALES_DYADIC))
        u = rng.random()
        if u < 0.18:
            t = gen.random_itier(rng, tmax=30, maxn=6, long_p=0.015) if rng.random() < 0.6 else gen.random_ptier(rng, tmax=30, maxn=6, long_p=0.015)
            q = rng.choice(gen.LABELS + ["a", "b", "x", " ", "y", "-"])
            cases.append({"op": "find", "tier": t, "q": q, "substr": rng.random() < 0.5, "scale": sc})
        elif u < 0.24:
            t = gen.random_itier(rng, tmax=30, maxn=6, long_p=0.015) if rng.random() < 0.6 else gen.random_ptier(rng, tmax=30, maxn=6, long_p=0.015)
            q = rng.choice(["a", "A", "a|b", "^a", "b$", ".", "x y", "[ab]", "a-", "^$", "É", "é",
                            r"\S", r"\s", r"\d", r"\D", r"\w+$", r"\W", r"a\b", r"\Bb"])
            cases.append({"op": "findre", "tier": t, "q": q, "scale": sc})
        elif u < 0.34:
            t = gen.random_itier(rng, tmax=30, maxn=6, long_p=0.015)
            t["min"] = max(0, min([t["min"]] + [e[0] for e in t["entries"]]))
            if t["entries"] and t["entries"][0][0] < 0:
                continue
            cases.append({"op": "nonentries", "tier": t, "scale": sc})
        elif u < 0.46:
            t = gen.random_itier(rng, tmax=30, maxn=5, long_p=0.015)
            rows = _rows(rng, rng.randint(0, 10), 32)
            if rng.random() < 0.04:
                # a series as long as real pitch / intensity listings (a thousand rows and more), mostly in time order
                rows = _rows(rng, rng.randint(1000, 1400), max(32, t["max"]))
                if rng.random() < 0.8:
                    rows.sort()
            if rng.random() < 0.5:
                rows.sort()
            if t["entries"] and rng.random() < 0.6:
                rows.append([rng.choice(t["entries"])[rng.randint(0, 1)], 99])
            cases.append({"op": "valuesin", "tier": t, "rows": rows, "scale": sc})
        elif u < 0.62:
            t = gen.random_ptier(rng, tmax=30, maxn=6, distinct=rng.random() < 0.7, long_p=0.015)
            rows = _rows(rng, rng.randint(0, 10), 32)
            if rng.random() < 0.04:
                rows = sorted(_rows(rng, rng.randint(1000, 1400), max(32, t["max"])))
            if t["entries"] and rng.random() < 0.6:
                rows.append([rng.choice(t["entries"])[0], 77])
            if rng.random() < 0.5:
                rng.shuffle(rows)
            cases.append({"op": "valuesat", "tier": t, "rows": rows, "fuzzy": rng.random() < 0.5, "scale": sc})
        elif u < 0.78:
            s, e = sorted(rng.sample(range(0, 8), 2))
            cs, ce = sorted(rng.sample(range(0, 8), 2))
            pn, pd = rng.choice([(0, 1), (0, 1), (1, 4), (1, 2), (3, 4), (1, 1)])
            th = rng.choice([0, 0, 1, 2, 3])
            cases.append({"op": "overlap", "a": [s, e, cs, ce], "pn": pn, "pd": pd, "th": th, "incl": rng.random() < 0.5, "scale": sc})
            # decimal times with the default thresholds: whether two intervals overlap is a matter of order alone
            # (a shared boundary is the same binary64 value on both sides), so it is decided exactly there too
            s, e = sorted(rng.sample(range(0, 60), 2))
            if rng.random() < 0.6:
                cs, ce = (e, e + rng.randint(1, 30)) if rng.random() < 0.5 else (max(0, s - rng.randint(1, 30)), s)
                if cs == ce:
                    ce += 1
            else:
                cs, ce = sorted(rng.sample(range(0, 60), 2))
            cases.append({"op": "overlap", "a": [s, e, cs, ce], "pn": 0, "pd": 1, "th": 0, "incl": rng.random() < 0.5,
                          "scale": ["decimal", rng.choice([1, 2])]})
        elif u < 0.92:
            k = rng.randint(0, 5)
            cuts = sorted(rng.sample(range(0, 30), 2 * k))
            iv = [[cuts[2 * j], cuts[2 * j + 1]] for j in range(k)]
            if iv and rng.random() < 0.3:      # touching
                for j in range(len(iv) - 1):
                    if rng.random() < 0.5:
                        iv[j][1] = iv[j + 1][0]
            if rng.random() < 0.4:
                rng.shuffle(iv)
            if iv and rng.random() < 0.08:
                iv[0] = [iv[0][1], iv[0][0]]
            mn = None if rng.random() < 0.15 else rng.choice([0, 0, min([x[0] for x in iv] + [3]), -2])
            mx = None if rng.random() < 0.15 else rng.choice([30, max([x[1] for x in iv] + [20]), 35])
            cases.append({"op": "invert", "iv": iv, "mn": mn, "mx": mx, "scale": sc})
        else:
            t = gen.random_itier(rng, tmax=30, maxn=5) if rng.random() < 0.6 else gen.random_ptier(rng, tmax=30, maxn=5, distinct=rng.random() < 0.6)
            corrupt = None
            if rng.random() < 0.7:
                corrupt = rng.choice(["min_up", "max_down", "swap", "reverse_entry", "overlap", "overlap", "none", "swap_equal"])
            if corrupt == "swap_equal" and t["kind"] == "P" and t["entries"]:
                # two points at one time, stored in the other order: still in time order, still valid
                e = rng.choice(t["entries"])
                t["entries"] = sorted(t["entries"] + [[e[0], e[1] + "z"]])
            cases.append({"op": "validate", "tier": t, "corrupt": corrupt, "scale": sc})
    # Textgrid.validate: True exactly when every tier has the textgrid's span and is itself valid (names unique)
    for _ in range(300 if tier == "quick" else 8000):
        tiers = []
        for k in range(rng.randint(1, 4)):
            t = gen.random_itier(rng, name="i%d" % k, tmax=30, maxn=4) if rng.random() < 0.6 else gen.random_ptier(rng, name="p%d" % k, tmax=30, maxn=4)
            if rng.random() < 0.3:
                t["entries"] = []
            t["min"], t["max"] = 0, 30
            tiers.append(t)
        corrupt = None
        if rng.random() < 0.65:
            corrupt = [rng.randrange(len(tiers)), rng.choice(["min_up", "max_down", "max_up", "swap", "tgmax_up", "tgmin_down"])]
        cases.append({"op": "tgvalidate", "tiers": tiers, "corrupt": corrupt, "scale": list(rng.choice(gen.SCALES_DYADIC))})
    for _ in range(300 if tier == "quick" else 8000):
        t = gen.random_itier(rng, tmax=30, maxn=5) if rng.random() < 0.6 else gen.random_ptier(rng, tmax=30, maxn=5)
        if rng.random() < 0.15:
            t["entries"] = []
        cases.append({"op": "equality", "tier": t, "seed": rng.randint(0, 10**9), "scale": list(rng.choice(gen.SCALES_DYADIC))})
    return cases


def run(case):
    sc = core.Scale(*case["scale"])
    op = case["op"]
    from praatio.utilities import utils

    def f():
        if op == "find":
            return core.mk_tier(case["tier"], sc).find(case["q"], substrMatchFlag=case["substr"])
        if op == "findre":
            t = core.mk_tier(case["tier"], sc)
            return {"got": t.find(case["q"], usingRE=True),
                    "exp": [i for i, e in enumerate(case["tier"]["entries"]) if re.search(case["q"], e[-1], re.I)]}
        if op == "nonentries":
            ne = core.mk_tier(case["tier"], sc).getNonEntries()
            return [[core.tk(e[0], sc), core.tk(e[1], sc), e[2]] for e in ne]
        if op == "valuesin":
            t = core.mk_tier(case["tier"], sc)
            data = [(sc.f(a), b) for a, b in case["rows"]]
            out = t.getValuesInIntervals(data)
            return [[[core.tk(i[0], sc), core.tk(i[1], sc), i[2]], [[core.tk(a, sc), b] for a, b in rows]] for i, rows in out]
        if op == "valuesat":
            t = core.mk_tier(case["tier"], sc)
            data = [(sc.f(a), b) for a, b in case["rows"]]
            out = t.getValuesAtPoints(data, case["fuzzy"])
            return [None if len(r) == 0 else [core.tk(r[0], sc), r[1]] for r in out]
        if op == "overlap":
            s, e, cs, ce = [sc.f(x) for x in case["a"]]
            return bool(utils.intervalOverlapCheck((s, e, ""), (cs, ce, ""), case["pn"] / case["pd"], sc.f(case["th"]), case["incl"]))
        if op == "invert":
            iv = [(sc.f(a), sc.f(b)) for a, b in case["iv"]]
            out = utils.invertIntervalList(iv, None if case["mn"] is None else sc.f(case["mn"]),
                                           None if case["mx"] is None else sc.f(case["mx"]))
            return [[core.tk(a, sc), core.tk(b, sc)] for a, b in out]
        if op == "validate":
            t = core.mk_tier(case["tier"], sc)
            c = case["corrupt"]
            if c == "min_up":
                t.minTimestamp = t.minTimestamp + sc.f(3)
            elif c == "max_down":
                t.maxTimestamp = t.maxTimestamp - sc.f(5)
            elif c == "swap" and len(t._entries) >= 2:
                t._entries[0], t._entries[1] = t._entries[1], t._entries[0]
            elif c == "swap_equal":
                for k in range(len(t._entries) - 1):
                    if len(t._entries[k]) == 2 and t._entries[k][0] == t._entries[k + 1][0]:
                        t._entries[k], t._entries[k + 1] = t._entries[k + 1], t._entries[k]
                        break
            elif c == "reverse_entry" and len(t._entries) >= 1 and case["tier"]["kind"] == "I":
                e = t._entries[0]
                t._entries[0] = type(e)(e[1], e[0], e[2])
            elif c == "overlap" and len(t._entries) >= 2 and case["tier"]["kind"] == "I":
                # an entry reaching into its successor: starts still ascending, everything inside the span
                k = (case["tier"]["entries"][0][0] * 7 + len(t._entries)) % (len(t._entries) - 1)
                e, nx = t._entries[k], t._entries[k + 1]
                spec_nx = case["tier"]["entries"][k + 1]
                t._entries[k] = type(e)(e[0], nx[1] if (k % 2 or spec_nx[1] - spec_nx[0] < 2) else sc.f(spec_nx[0] + 1), e[2])
            snap = core.snap_tier(t, sc)
            return {"state": snap, "valid": bool(t.validate("silence"))}
        if op == "tgvalidate":
            from praatio.data_classes.textgrid import Textgrid
            tg = Textgrid(sc.f(0), sc.f(30))
            for spec in case["tiers"]:
                tg.addTier(core.mk_tier(spec, sc), reportingMode="silence")
            if case["corrupt"]:
                k, c = case["corrupt"]
                t = tg.tiers[k]
                if c == "min_up":
                    t.minTimestamp = t.minTimestamp + sc.f(3)
                elif c == "max_down":
                    t.maxTimestamp = t.maxTimestamp - sc.f(5)
                elif c == "max_up":
                    t.maxTimestamp = t.maxTimestamp + sc.f(2)
                elif c == "swap" and len(t._entries) >= 2:
                    t._entries[0], t._entries[1] = t._entries[1], t._entries[0]
                elif c == "tgmax_up":
                    tg.maxTimestamp = tg.maxTimestamp + sc.f(1)
                elif c == "tgmin_down":
                    tg.minTimestamp = tg.minTimestamp - sc.f(1)
            with core.captured_stdout():
                got = bool(tg.validate("silence"))
                exp = all(t.minTimestamp == tg.minTimestamp and t.maxTimestamp == tg.maxTimestamp for t in tg.tiers) \
                    and all(bool(t.validate("silence")) for t in tg.tiers) and len(set(tg.tierNames)) == len(tg.tierNames)
                raised = None
                try:
                    tg.validate("error")
                except Exception as e:  # noqa
                    raised = type(e).__name__
            return {"got": got, "exp": exp, "raised": raised}
        if op == "equality":
            return _equality(case, sc)
        raise ValueError(op)
    return core.run_guarded(f)


def _equality(case, sc):
    import random
    rng = random.Random(case["seed"])
    from praatio.data_classes.textgrid import Textgrid
    spec = case["tier"]
    t = core.mk_tier(spec, sc)
    fails = []
    if not (t == t) or not (t == core.mk_tier(spec, sc)):
        fails.append("== not reflexive on equal data")
    variants = []
    v = dict(spec, name=spec["name"] + "x")
    variants.append(("name", v))
    if spec["entries"]:
        k = rng.randrange(len(spec["entries"]))
        ents = [list(e) for e in spec["entries"]]
        ents[k][-1] = ents[k][-1] + "q"
        variants.append(("label", dict(spec, entries=ents)))
        variants.append(("count", dict(spec, entries=[list(e) for e in spec["entries"]][:-1])))
    variants.append(("max", dict(spec, max=spec["max"] + 1)))
    for what, vs in variants:
        u = core.mk_tier(vs, sc)
        if (t == u) or (u == t):
            fails.append("== does not distinguish a change of %s" % what)
        if (t == u) != (u == t):
            fails.append("== not symmetric under a change of %s" % what)
    # labels (and names) are compared as the strings they are: other case, another spelling of the same letters
    # (precomposed / decomposed, compatibility forms), an invisible character more -- each is another label
    pairs = [("\u00e9", "e\u0301"), ("\u212b", "\u00c5"), ("K", "\u212a"), ("\ufb01", "fi"), ("a", "A"), ("a", "a\u200b"),
             ("\u1100\u1161", "\uac00"), ("x", "x\ufeff"), ("", "\u200b")]
    if spec["entries"]:
        k = rng.randrange(len(spec["entries"]))
        x, y = rng.choice(pairs)
        ea, eb = [list(e) for e in spec["entries"]], [list(e) for e in spec["entries"]]
        ea[k][-1], eb[k][-1] = ea[k][-1] + x, eb[k][-1] + y
        ua, ub = core.mk_tier(dict(spec, entries=ea), sc), core.mk_tier(dict(spec, entries=eb), sc)
        if ua.entries[k][-1] != ub.entries[k][-1] and ((ua == ub) or (ub == ua)):
            fails.append("== does not distinguish the labels %r and %r" % (ea[k][-1], eb[k][-1]))
    x, y = rng.choice(pairs[:8])
    ua, ub = core.mk_tier(dict(spec, name=spec["name"] + x), sc), core.mk_tier(dict(spec, name=spec["name"] + y), sc)
    if (ua == ub) or (ub == ua):
        fails.append("== does not distinguish the names %r and %r" % (ua.name, ub.name))
    # a timestamp changed beyond rounding noise / within rounding noise
    if spec["entries"]:
        ents = [list(e) for e in spec["entries"]]
        other = core.mk_tier(spec, sc)
        e0 = other._entries[0]
        big = type(e0)(*([e0[0] + abs(e0[0]) * 1e-6 + 1e-6] + list(e0[1:])))
        other._entries[0] = big
        if t == other:
            fails.append("== does not distinguish a timestamp changed by 1e-6 relative")
    # the tier type is part of a tier's identity, entries or not
    if spec["kind"] == "I":
        other_kind = dict(spec, kind="P", entries=[[e[0], e[2]] for e in spec["entries"]])
    else:
        other_kind = dict(spec, kind="I", entries=[])
    if spec["kind"] == "I" or not spec["entries"]:
        u = core.mk_tier(other_kind, sc)
        if (t == u) or (u == t):
            fails.append("== does not distinguish an IntervalTier from a PointTier with the same name, span and %d entries" % len(spec["entries"]))
        tga, tgb = Textgrid(), Textgrid()
        tga.addTier(core.mk_tier(spec, sc))
        tgb.addTier(u)
        if tga == tgb or tgb == tga:
            fails.append("Textgrid == does not distinguish the type of a tier")
    tg1, tg2 = Textgrid(), Textgrid()
    tg1.addTier(t)
    tg2.addTier(core.mk_tier(spec, sc))
    if not (tg1 == tg2) or not (tg2 == tg1):
        fails.append("Textgrid == not reflexive/symmetric on equal data")
    tg3 = Textgrid()
    tg3.addTier(core.mk_tier(dict(spec, name=spec["name"] + "x"), sc))
    if tg1 == tg3 or tg3 == tg1:
        fails.append("Textgrid == does not distinguish a tier name")
    if t == "not a tier" or tg1 == 5:
        fails.append("== with a foreign type is True")
    # != is the negation of ==, on tiers, textgrids and single entries (also for entries equal up to rounding noise)
    from praatio.utilities.constants import Interval, Point
    pairs_ne = [(t, core.mk_tier(spec, sc)), (t, core.mk_tier(dict(spec, name=spec["name"] + "x"), sc)), (tg1, tg2), (tg1, tg3),
                (Interval(0.1 + 0.2, 1.0, "x"), Interval(0.3, 1.0, "x")), (Interval(0.5, 1.0, "x"), Interval(0.5, 1.0, "x")),
                (Interval(0.5, 1.0, "x"), Interval(0.5, 1.0, "y")), (Point(0.1 + 0.2, "x"), Point(0.3, "x")), (Point(0.5, "x"), Point(0.5, "y"))]
    for a, b in pairs_ne:
        if (a != b) == (a == b):
            fails.append("== and != agree on %r and %r" % (type(a).__name__, b if isinstance(b, tuple) else type(b).__name__))
    return {"fails": fails}


def _crow(r):
    return "(%s, %s)" % (core.cz(r[0]), core.cz(r[1]))


def _crows(rows):
    return core.clist([_crow(r) for r in rows], "row")


def _nats(l):
    return core.clist(["%d%%nat" % x for x in l], "nat")


def emit(case, r):
    op = case["op"]
    if op in ("findre", "equality", "tgvalidate"):
        return None
    if op == "invert":
        f = lambda x: "None" if x is None else "(Some %s)" % core.cz(x)  # noqa
        return "Invert %s %s %s %s" % (_crows(case["iv"]), f(case["mn"]), f(case["mx"]), core.cres(r, _crows))
    if op == "nonentries":
        return "NonEntries %s %s" % (core.citier(case["tier"]),
                                     core.cres(r, lambda l: core.clist([core.cinterval(e) for e in l], "interval")))
    if op == "valuesat":
        fmt = lambda l: core.clist(["None" if x is None else "(Some %s)" % _crow(x) for x in l], "(option row)")  # noqa
        return "ValuesAt %s %s %s %s" % (core.cptier(case["tier"]), _crows(case["rows"]), core.cbool(case["fuzzy"]), core.cres(r, fmt))
    if "ok" not in r:
        return None
    v = r["ok"]
    if op == "find":
        t = case["tier"]
        return "Find%s %s %s %s %s" % (t["kind"], core.ctier(t), core.ctext(case["q"]), core.cbool(case["substr"]), _nats(v))
    if op == "valuesin":
        items = ["(%s, %s)" % (core.cinterval(i), _crows(rows)) for i, rows in v]
        return "ValuesIn %s %s %s" % (core.citier(case["tier"]), _crows(case["rows"]), core.clist(items, "(interval * list row)"))
    if op == "overlap":
        a = case["a"]
        return "OverlapChk %s %s %s %s %d %d %s %s %s" % (core.cz(a[0]), core.cz(a[1]), core.cz(a[2]), core.cz(a[3]),
                                                         case["pn"], case["pd"], core.cz(case["th"]), core.cbool(case["incl"]), core.cbool(v))
    if op == "validate":
        st = v["state"]
        return "Validate%s %s %s" % (st["kind"], core.ctier(st), core.cbool(v["valid"]))
    return None


def model_expr(case):
    return None


def py_checks(case, r):
    op = case["op"]
    if op == "findre":
        if "ok" not in r:
            return ["find(usingRE) raised %s" % r.get("exc")]
        return [] if r["ok"]["got"] == r["ok"]["exp"] else ["regex find returned %r, re.search(q, label, re.I) selects %r" % (r["ok"]["got"], r["ok"]["exp"])]
    if op == "equality":
        if "ok" not in r:
            return ["equality harness failed: %r" % (r,)]
        return r["ok"]["fails"]
    if op == "tgvalidate":
        if "ok" not in r:
            return ["Textgrid.validate('silence') raised %s" % r.get("exc", r)]
        v = r["ok"]
        out = []
        if v["got"] != v["exp"]:
            out.append("Textgrid.validate() returned %s; every tier has the textgrid's span and is valid: %s" % (v["got"], v["exp"]))
        if (v["raised"] is None) != v["exp"]:
            out.append("Textgrid.validate('error') raised %s on a textgrid whose validity is %s" % (v["raised"], v["exp"]))
        return out
    if op in ("find", "valuesin", "overlap", "validate") and "ok" not in r:
        return ["%s raised %s" % (op, r.get("exc", r))]
    return []


def classify(case, r):
    out = "err:" + r["err"] if "err" in r else ("offgrid" if "offgrid" in r else "ok")
    extra = ""
    if case["op"] == "valuesat":
        extra = "/fuzzy" if case["fuzzy"] else "/exact"
    if case["op"] == "validate":
        extra = "/%s/%s" % (case["corrupt"], r.get("ok", {}).get("valid"))
    if case["op"] == "tgvalidate":
        extra = "/%s/%s" % (case["corrupt"][1] if case["corrupt"] else None, r.get("ok", {}).get("got"))
    return "%s%s/%s" % (case["op"], extra, out)


def nontrivial(case, r):
    if "tier" in case:
        return bool(case["tier"]["entries"])
    if case["op"] == "invert":
        return bool(case["iv"])
    return True


def shrinks(case):
    if "tier" in case:
        for t2 in gen.shrink_tier(case["tier"]):
            c = dict(case)
            c["tier"] = t2
            yield c
    if "rows" in case:
        for k in range(len(case["rows"])):
            c = dict(case)
            c["rows"] = case["rows"][:k] + case["rows"][k + 1:]
            yield c


def finding_match(case, r, kind, why, findings):
    return None


def _obs_term(kind, state, st, res):
    if "ok" not in res:
        return None
    ct = core.citier if kind == "I" else core.cptier
    if st["op"] == "timestamps":
        return "Ts%s %s %s" % (kind, ct(state), core.clist([core.cz(x) for x in res["ok"]["list"]], "Z"))
    return "Find%s %s %s %s %s" % (kind, ct(state), core.ctext(st["args"]["q"]), core.cbool(st["args"]["substr"]),
                                  core.clist(["%d%%nat" % k for k in res["ok"]["list"]], "nat"))


obshist.install(sys.modules[__name__], ["timestamps", "find"], ["timestamps", "find"], _obs_term)
