"""C08 -- insertSpace opens exactly the requested gap and eraseRegion undoes it."""
import itertools
from .. import core, gen, tierops

ID = "C08"
MODULE = "Check.C08Check"
CASE_TYPE = "C08case"
CORR, ORACLE, HYP = "C08corr", "C08oracle", "C08hyp"
RULE = ("small scope: all wf tiers of <=3 intervals on the even grid 0..8 x all s in 0..8 x d in {1,2,3} x 4 modes, each also "
        "composed with eraseRegion(s,s+d,truncate,shrink) (quick: sampled) + random tiers on dyadic and decimal grids + point "
        "tiers + Textgrid.insertSpace; non-trivial = at least one entry ends after s")
EXPLANATION = ("Props/C08.v proves totality and the explicit result of insertSpace on all wf tiers, the entry-level clauses, the "
               "label function before/after the gap, and that eraseRegion(s,s+d,truncate,shrink) restores span and label function "
               "(stretch/split).  This run compares implementation output (single call and the composition) with the model and "
               "with the clause-by-clause oracle inside Coq, on dyadic and decimal grids.")
TRUSTED = ["models: Tier/TierModel.v space_i, space_p, space1, erase_i"]
ASSUMPTIONS = ["exact arithmetic in the theorems; binary64 behaviour sampled on decimal grids (tolerance 1e-6 tick)"]


def generate(tier, rng):
    cases = []
    small = gen.small_itiers(8, 3)
    combos = list(itertools.product(range(len(small)), range(0, 9), (1, 2, 3), tierops.SPACE, ("space", "space_erase")))
    if tier == "quick":
        combos = rng.sample(combos, min(len(combos), 3500))
    for ti, s, d, m, op in combos:
        cases.append({"op": op, "tier": small[ti], "args": {"s": s, "d": d, "mode": m}, "scale": ["dyadic", rng.choice([0, 3])]})
    nrand = 3000 if tier == "quick" else 80000
    for _ in range(nrand):
        sc = gen.pick_scale(rng, decimal_share=0.5)
        big = 60 if sc[0] == "dyadic" else 3000
        if rng.random() < 0.85:
            t = gen.random_itier(rng, tmax=big, maxn=8, long_p=0.03)
            op = rng.choice(["space", "space_erase"])
        else:
            t = gen.random_ptier(rng, tmax=big, long_p=0.03, distinct=rng.random() < 0.75)
            op = "space"
        d = rng.randint(1, big // 3)
        if rng.random() < 0.12:
            # times before 0 are ordinary times here (half of the time the whole tier lies before 0)
            t = gen.shift_tier(t, -rng.randint(1, big) if rng.random() < 0.5 else -(t["max"] + rng.randint(1, 9)))
            if t["max"] < 0 and rng.random() < 0.5:
                d = -t["max"]                                       # ... and the new end may be exactly 0
        s = rng.randint(t["min"], t["max"])
        if t["entries"] and rng.random() < 0.4:
            s = rng.choice([x for e in t["entries"] for x in e[:-1]])
        cases.append({"op": op, "tier": t, "args": {"s": s, "d": d, "mode": rng.choice(list(tierops.SPACE))},
                      "scale": sc})
    for _ in range(300 if tier == "quick" else 3000):
        tiers = []
        for k in range(rng.randint(1, 3)):
            t = gen.random_itier(rng, name="i%d" % k, tmax=40) if rng.random() < 0.6 else gen.random_ptier(rng, name="p%d" % k, tmax=40)
            t["min"], t["max"] = 0, max(40, t["max"])
            tiers.append(t)
        mx = max(t["max"] for t in tiers)
        for t in tiers:
            t["max"] = mx
        cases.append({"op": "tgspace", "tiers": tiers, "args": {"s": rng.randint(0, mx), "d": rng.randint(1, 9),
                                                                "mode": rng.choice(["stretch", "split", "no_change", "error"])},
                      "scale": gen.pick_scale(rng)})
    return cases


def run(case):
    sc = core.Scale(*case["scale"])
    a = case["args"]
    if case["op"] == "space":
        return tierops.run_single(case)
    if case["op"] == "space_erase":
        def f():
            t = core.mk_tier(case["tier"], sc)
            # option values as a caller has them at run time (read from a file, computed): equal strings, not the literals
            t1 = t.insertSpace(sc.f(a["s"]), sc.f(a["d"]), tierops._fresh(a["mode"]) if a["d"] % 2 else a["mode"])
            t2 = t1.eraseRegion(sc.f(a["s"]), sc.f(a["s"]) + sc.f(a["d"]), tierops._fresh("truncate") if a["s"] % 2 else "truncate", True)
            return core.snap_tier(t2, sc)
        return core.run_guarded(f)
    from praatio.data_classes.textgrid import Textgrid

    def g():
        tg = Textgrid()
        built = [core.mk_tier(t, sc) for t in case["tiers"]]
        for x in built:
            tg.addTier(x, reportingMode="silence")
        r = tg.insertSpace(sc.f(a["s"]), sc.f(a["d"]), a["mode"])
        per = [core.snap_tier(x.insertSpace(sc.f(a["s"]), sc.f(a["d"]), a["mode"]), sc) for x in built]
        return {"names": list(r.tierNames), "tiers": [core.snap_tier(x, sc) for x in r.tiers], "per_tier": per,
                "min": core.tk(r.minTimestamp, sc), "max": core.tk(r.maxTimestamp, sc), "valid": r.validate("silence")}
    return core.run_guarded(g)


def emit(case, r):
    if case["op"] == "tgspace":
        return None
    t, a = case["tier"], case["args"]
    if t["kind"] == "P":
        return "SpaceP %s %s %s %s" % (core.cptier(t), core.cz(a["s"]), core.cz(a["d"]), core.cres(r, core.cptier))
    ctor = "SpaceI" if case["op"] == "space" else "SpaceEraseI"
    return "%s %s %s %s %s %s" % (ctor, core.citier(t), core.cz(a["s"]), core.cz(a["d"]), tierops.SPACE[a["mode"]],
                                  core.cres(r, core.citier))


def model_expr(case):
    if case["op"] == "tgspace":
        return None
    t, a = case["tier"], case["args"]
    if t["kind"] == "P":
        return "space_p %s %s %s" % (core.cptier(t), core.cz(a["s"]), core.cz(a["d"]))
    fn = "space_i" if case["op"] == "space" else "space_erase_i"
    return "%s %s %s %s %s" % (fn, core.citier(t), core.cz(a["s"]), core.cz(a["d"]), tierops.SPACE[a["mode"]])


def py_checks(case, r):
    if case["op"] != "tgspace":
        return []
    a = case["args"]
    straddled = a["mode"] == "error" and any(t["kind"] == "I" and any(e[0] < a["s"] < e[1] for e in t["entries"]) for t in case["tiers"])
    if "ok" not in r:
        # the error mode refuses exactly when an interval lies across the insertion point
        if straddled and r.get("err") == "ArgumentError":
            return []
        return ["Textgrid.insertSpace raised %s" % r.get("exc", r)]
    if straddled:
        return ["Textgrid.insertSpace(collisionMode='error') did not raise although an interval lies across the insertion point"]
    v = r["ok"]
    fails = []
    if v["names"] != [t["name"] for t in case["tiers"]]:
        fails.append("tier names/order changed")
    if v["tiers"] != v["per_tier"]:
        fails.append("a tier of the result differs from that tier's own insertSpace")
    mx = case["tiers"][0]["max"]
    if (v["min"], v["max"]) != (0, mx + case["args"]["d"]):
        fails.append("textgrid span %r" % ((v["min"], v["max"]),))
    if not v["valid"]:
        fails.append("result does not validate()")
    return fails


def classify(case, r):
    out = "err:" + r["err"] if "err" in r else ("offgrid" if "offgrid" in r else "ok")
    tk = case["tier"]["kind"] if "tier" in case else "TG"
    return "%s/%s/%s/%s/%s" % (case["op"], tk, case["args"]["mode"], case["scale"][0], out)


def nontrivial(case, r):
    if "tiers" in case:
        return any(t["entries"] for t in case["tiers"])
    return any(e[-2] > case["args"]["s"] for e in case["tier"]["entries"])


def shrinks(case):
    if "tiers" in case:
        return
    for t2 in gen.shrink_tier(case["tier"]):
        c = dict(case)
        c["tier"] = t2
        yield c


def finding_match(case, r, kind, why, findings):
    return None
