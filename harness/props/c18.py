"""C18 -- zero-crossing search finds real crossings; splicing keeps audio and text in step."""
import math
import os
import shutil
import signal
from .. import core
from . import c16

ID = "C18"
MODULE = "Check.C18Check"
CASE_TYPE = "C18case"
CORR, ORACLE, HYP = "C18corr", "C18oracle", "C18hyp"
K = 4
RULE = ("(a) findNearestZeroCrossing on in-memory Wav and file-backed QueryWav: recordings of 2..80 samples of six kinds (random, "
        "all-positive, all-zero, sparse-zero, single-crossing, sine) x widths 1/2/4 x rates 8, 16, 64 (exact time grid: result must equal "
        "the model's) and 8000, 16000, 44100 (judged by the oracle only) x every kind of target (on samples, a quarter / half sample "
        "off, the two ends) x timeStep from below two samples up to the whole recording, whole and fractional numbers of samples, "
        "plus the default 0.002 s; each call under a 3 s alarm (termination); (b) tgBoundariesToZeroCrossings on random textgrids; "
        "(c) audioSplice x insertion points x optional replaced region x alignToZeroCrossing, judged on the real objects, and "
        "(d) audioSplice on the tick grid (8000/16000/64 Hz, entries and points on and around the requested times, target tier "
        "present / a point tier / absent): recording and whole textgrid compared with the model; non-trivial = the recording has a crossing")
EXPLANATION = ("Props/C18.v proves for every recording, target and step that the search terminates and that whatever it returns is "
               "on a sample position inside the recording and is a genuine crossing, and that the only errors are ArgumentError "
               "(step below two samples) and FindZeroCrossingError.  The implementation's result is compared with the model on the "
               "exact time grid and judged by the statement of the property (range, on-sample, genuine crossing, documented "
               "errors) inside Coq on all grids; tgBoundariesToZeroCrossings and audioSplice are compared with their models (tg_zc, splice) "
               "whenever no candidate pair is exactly tied, and judged by the statement of the property in every case.")
TRUSTED = ["model: Audio/ZeroCross.v (getInterval, _findNextZeroCrossing, _getZeroThresholdCrossing, chooseClosestTime, the search loop with fuel)",
           "at the non-dyadic rates the window bookkeeping runs in binary64 (left -= timeStep ...); there only the outcome is judged, not its equality with the model",
           "models: Textgrid/TgZc.v tg_zc (tgBoundariesToZeroCrossings), Textgrid/TgSplice.v splice, shift_tg (audioSplice, _shiftTimes)",
           "a search with two candidates at exactly the same distance is decided by binary64 rounding at these rates: such cases are judged by the oracle only"]
ASSUMPTIONS = ["mono recordings; targets inside [0, duration]"]
RATES_DY = [8, 16, 64]
RATES_DEC = [8000, 16000, 44100]


class Timeout(Exception):
    pass


def _alarm(_sig, _frm):
    raise Timeout()


def _signal(rng, w, n):
    hi = 2 ** (8 * w - 1) - 1
    kind = rng.choice(["random", "positive", "zero", "sparse", "single", "sine", "negative"])
    amp = min(hi, 1000)
    if kind == "random":
        return [rng.randint(-amp, amp) for _ in range(n)]
    if kind == "positive":
        return [rng.randint(1, amp) for _ in range(n)]
    if kind == "negative":
        return [-rng.randint(1, amp) for _ in range(n)]
    if kind == "zero":
        return [0] * n
    if kind == "sparse":
        s = [rng.randint(1, amp) for _ in range(n)]
        for _ in range(rng.randint(1, 3)):
            s[rng.randrange(n)] = 0
        return s
    if kind == "single":
        k = rng.randrange(1, n) if n > 1 else 0
        return [rng.randint(1, amp) for _ in range(k)] + [-rng.randint(1, amp) for _ in range(n - k)]
    return [round(amp * math.sin(2 * math.pi * i / rng.choice([5, 8, 13]))) for i in range(n)]


def generate(tier, rng):
    cases = []
    for _ in range(1200 if tier == "quick" else 40000):
        w = rng.choice([1, 2, 4])
        rate = rng.choice(RATES_DY + RATES_DY + RATES_DEC)
        n = rng.randint(2, 80 if tier != "quick" else 40)
        s = _signal(rng, w, n)
        dy = rate in RATES_DY
        u = rng.random()
        t = rng.randrange(0, n + 1) * K if u < 0.6 else 0 if u < 0.7 else n * K if u < 0.8 else rng.randint(0, n * K)
        if not dy and t % K == K // 2:
            t += 1
        v = rng.random()
        st = rng.choice([K, 2 * K - 1, 2 * K, 2 * K + 1, 3 * K, 10, 14]) if v < 0.5 else rng.randint(2 * K, max(2 * K, n * K)) if v < 0.9 else None
        if not dy and st is not None and st % K:
            st += K - st % K              # whole samples at the non-dyadic rates
        cases.append({"op": "zc", "w": w, "rate": rate, "s": s, "t": t, "st": st, "file": rng.random() < 0.3, "scale": ["ticks", K]})
    # long searches: a recording of a second or so with a DC offset (no crossing, or one far from the target) and a step
    # of two or three samples -- hundreds of rounds of widening before the answer
    for _ in range(8 if tier == "quick" else 200):
        w, rate = 2, rng.choice(RATES_DY)
        n = rng.randint(700, 1300)
        s = [rng.randint(1, 900) for _ in range(n)]
        if rng.random() < 0.6:
            k = rng.choice([0, 1, n - 1, n - 2, rng.randrange(n)])
            s[k] = -5
        cases.append({"op": "zc", "w": w, "rate": rate, "s": s, "t": rng.choice([n // 2, n // 3, 5, n - 5]) * K, "st": rng.choice([2 * K, 3 * K, 2 * K + 2]),
                      "file": rng.random() < 0.3, "scale": ["ticks", K]})
    # histories on one Wav object: search, edit the audio in place (also without changing its length), search again
    for _ in range(200 if tier == "quick" else 5000):
        w = rng.choice([1, 2, 4])
        rate = rng.choice(RATES_DY)
        n = rng.randint(6, 30)
        s = _signal(rng, w, n)
        steps = []
        for _k in range(rng.randint(2, 5)):
            t = rng.randrange(0, n + 1) * K
            st = rng.choice([2 * K, 3 * K, 10, 4 * K])
            steps.append({"k": "zc", "t": t, "st": st})
            if rng.random() < 0.8:
                a = rng.randrange(0, n)
                b = rng.randrange(a, n + 1)
                m = (b - a) if rng.random() < 0.7 else rng.randint(0, 4)
                steps.append({"k": "replace", "a": a, "b": b, "f": _signal(rng, w, m) if m else []})
        cases.append({"op": "zchist", "w": w, "rate": rate, "s": s, "steps": steps, "scale": ["ticks", K]})
    for _ in range(150 if tier == "quick" else 4000):
        cases.append({"op": "tgzc", "seed": rng.randint(0, 10 ** 9), "scale": ["ticks", K], "s": []})
    # tgBoundariesToZeroCrossings on a tick grid: the whole textgrid that comes back, against the model
    for _ in range(120 if tier == "quick" else 3000):
        rate = rng.choice([8000, 16000])
        n = rng.randint(150, 400)
        kind = rng.choice(["sine", "sine", "sparse", "random"])
        if kind == "sine":
            per = rng.choice([37, 50, 80])
            s = [round(1000 * math.sin(2 * math.pi * i / per)) for i in range(n)]
        elif kind == "random":
            s = [rng.randint(-50, 50) for _ in range(n)]
        else:
            s = [rng.randint(1, 50) for _ in range(n)]
            for _k in range(rng.randint(2, 6)):
                s[rng.randrange(n)] = 0
        tiers = []
        for k in range(rng.randint(1, 3)):
            if rng.random() < 0.6:
                cuts = sorted(rng.sample(range(0, n + 1), 2 * rng.randint(0, 3)))
                ents = [[cuts[i] * K, cuts[i + 1] * K, "l%d" % i] for i in range(0, len(cuts), 2) if cuts[i + 1] - cuts[i] > 40]
                tiers.append({"kind": "I", "name": "i%d" % k, "entries": ents, "min": 0, "max": n * K})
            else:
                pts = sorted(rng.sample(range(0, n + 1), rng.randint(0, 4)))
                ents = [[min(p * K + rng.choice([0, 0, 1]), n * K), "m%d" % j] for j, p in enumerate(pts)]   # on a sample or a quarter past it
                tiers.append({"kind": "P", "name": "p%d" % k, "entries": ents, "min": 0, "max": n * K})
        cases.append({"op": "tgzc2", "rate": rate, "s": s, "tiers": tiers, "adjP": rng.random() < 0.85, "adjI": rng.random() < 0.85,
                      "scale": ["ticks", K]})
    for _ in range(150 if tier == "quick" else 4000):
        cases.append({"op": "splice", "seed": rng.randint(0, 10 ** 9), "scale": ["ticks", K], "s": []})
    # audioSplice on a tick grid: the recording and the whole textgrid that come back, against the model
    n2 = 0
    while n2 < (260 if tier == "quick" else 6000):
        c = _gen_splice2(rng)
        if c is not None:
            cases.append(c)
            n2 += 1
    return cases


def _gen_splice2(rng):
    rate = rng.choice([8000, 16000, 8000, 16000, 8000, 64])
    n = rng.randint(200, 500)
    kind = rng.choice(["sine", "sine", "random", "sparse"])
    per = rng.choice([16, 20, 32, 37])
    if kind == "sine":
        s = [round(1000 * math.sin(2 * math.pi * i / per)) for i in range(n)]
    elif kind == "random":
        s = [rng.randint(-50, 50) for _ in range(n)]
    else:
        s = [rng.randint(1, 50) for _ in range(n)]
        for _k in range(rng.randint(2, 8)):
            s[rng.randrange(n)] = rng.choice([0, -5])
    m = rng.randint(40, 150)
    sp = [round(700 * math.sin(2 * math.pi * (i + rng.choice([0, 3])) / per)) for i in range(m)]
    cuts = sorted(rng.sample(range(0, n + 1, 2), 2 * rng.randint(1, 4)))
    ents = [[cuts[i] * K, cuts[i + 1] * K, "w%d" % i] for i in range(0, len(cuts), 2)]
    if rng.random() < 0.3 and len(ents) > 1:
        ents[1][0] = ents[0][1]
    gaps, prev = [], 0
    for a, b, _ in ents:
        if a // K - prev >= 2:
            gaps.append((prev, a // K))
        prev = b // K
    if n - prev >= 2:
        gaps.append((prev, n))
    if not gaps:
        return None
    ga, gb = rng.choice(gaps)
    u = rng.random()
    i0 = ga if u < 0.3 else gb if u < 0.4 else rng.randint(ga, gb)
    a = i0 * K + (rng.choice([1, 2]) if rng.random() < 0.06 and i0 < n else 0)     # now and then off the sample grid
    b = None
    if rng.random() < 0.4 and gb - i0 >= 1:
        j = rng.randint(i0 + 1, gb) if rng.random() < 0.8 else rng.randint(i0, min(n, gb + 30))
        b = j * K
    pts = set(rng.sample(range(0, n + 1), rng.randint(0, 4)))
    if rng.random() < 0.5:
        # points on and right around the requested times: the ones on them move with them, and may meet a neighbour
        pts.add(i0)
        for _k in range(rng.randint(0, 3)):
            pts.add(max(0, min(n, i0 + rng.randint(-9, 9))))
        if b is not None and rng.random() < 0.5:
            pts.add(b // K)
    pents = [[p * K, "m%d" % j] for j, p in enumerate(sorted(pts))]
    tiers = [{"kind": "I", "name": "words", "entries": ents, "min": 0, "max": n * K}]
    if rng.random() < 0.8:
        tiers.append({"kind": "P", "name": "pts", "entries": pents, "min": 0, "max": n * K})
    if rng.random() < 0.4:
        c2 = sorted(rng.sample(range(0, n + 1), 2 * rng.randint(0, 3)))
        e2 = [[c2[i] * K, c2[i + 1] * K, "x%d" % i] for i in range(0, len(c2), 2)]
        if e2 and rng.random() < 0.5:
            e2[0][rng.choice([0, 1])] = i0 * K
        e2 = sorted(e for e in e2 if e[0] < e[1])
        if all(x[1] <= y[0] for x, y in zip(e2, e2[1:])):
            tiers.insert(rng.choice([0, 1]), {"kind": "I", "name": "other", "entries": e2, "min": 0, "max": n * K})
    return {"op": "splice2", "rate": rate, "s": s, "seg": sp, "tiers": tiers, "a": a, "b": b,
            "align": rng.random() < (0.65 if rate != 64 else 0.15),
            "name": rng.choice(["words"] * 18 + ["pts", "zz"]), "label": rng.choice(["NEW", "NEW", " n ", ""]), "scale": ["ticks", K]}


def _run_splice2(case):
    from praatio import praatio_scripts
    from praatio.data_classes.textgrid import Textgrid
    from praatio.data_classes.interval_tier import IntervalTier
    from praatio.data_classes.point_tier import PointTier
    rate, s = case["rate"], case["s"]
    f = lambda tk: tk / (K * rate)  # noqa
    wav, spl = _wav(s, 2, rate), _wav(case["seg"], 2, rate)
    tg = Textgrid(0.0, f(len(s) * K))
    for t in case["tiers"]:
        if t["kind"] == "I":
            tg.addTier(IntervalTier(t["name"], [(f(a), f(b), lab) for a, b, lab in t["entries"]], f(t["min"]), f(t["max"])))
        else:
            tg.addTier(PointTier(t["name"], [(f(a), lab) for a, lab in t["entries"]], f(t["min"]), f(t["max"])))
    awav, out = _with_alarm(lambda: praatio_scripts.audioSplice(wav, spl, tg, case["name"], case["label"], f(case["a"]),
                                                                None if case["b"] is None else f(case["b"]), case["align"]))

    def tk(x):
        v = _tick(x, rate)
        if v is None:
            raise core.OffGrid("time %r is not on the tick grid" % x)
        return v
    tiers = []
    for t in out.tiers:
        isP = type(t).__name__ == "PointTier"
        ents = [[tk(e[0]), e[1]] for e in t.entries] if isP else [[tk(e[0]), tk(e[1]), e[2]] for e in t.entries]
        tiers.append({"kind": "P" if isP else "I", "name": t.name, "entries": ents, "min": tk(t.minTimestamp), "max": tk(t.maxTimestamp)})
    smp = [int.from_bytes(awav.frames[2 * k:2 * k + 2], "little", signed=True) for k in range(len(awav.frames) // 2)]
    return {"samples": smp, "tiers": tiers, "min": tk(out.minTimestamp), "max": tk(out.maxTimestamp)}


def _wav(s, w, rate):
    from praatio import audio
    return audio.Wav(c16._enc(s, w), [1, w, rate, len(s), "NONE", "not compressed"])


_TIMEOUTS = [0]


def _with_alarm(fn, secs=3.0):
    old = signal.signal(signal.SIGALRM, _alarm)
    # once non-termination has been seen several times the verdict is settled: later calls get a short leash,
    # so that a search that never gives up does not cost three seconds per case
    signal.setitimer(signal.ITIMER_REAL, secs if _TIMEOUTS[0] < 6 else 0.2)
    try:
        return fn()
    except Timeout:
        _TIMEOUTS[0] += 1
        raise
    finally:
        signal.setitimer(signal.ITIMER_REAL, 0)
        signal.signal(signal.SIGALRM, old)


def _tick(x, rate):
    v = x * rate * K
    n = round(v)
    return n if abs(v - n) < 1e-6 else None


def _run_tgzc(case):
    import random
    from praatio import praatio_scripts
    from praatio.data_classes.textgrid import Textgrid
    from praatio.data_classes.interval_tier import IntervalTier
    from praatio.data_classes.point_tier import PointTier
    rng = random.Random(case["seed"])
    rate = rng.choice([8000, 16000])
    n = rng.randint(400, 1200)
    s = [round(1000 * math.sin(2 * math.pi * i / rng.choice([37, 50, 80]))) for i in range(n)]
    wav = _wav(s, 2, rate)
    dur = n / rate
    tg = Textgrid(0.0, dur)
    names = []
    for k in range(rng.randint(1, 3)):
        if rng.random() < 0.6:
            cuts = sorted(rng.sample(range(0, n + 1), 2 * rng.randint(0, 3)))
            ents = [(cuts[i] / rate, cuts[i + 1] / rate, "l%d" % i) for i in range(0, len(cuts), 2) if cuts[i + 1] - cuts[i] > 120]
            tg.addTier(IntervalTier("i%d" % k, ents, 0.0, dur))
        else:
            pts = sorted(rng.sample(range(0, n + 1), rng.randint(0, 4)))
            tg.addTier(PointTier("p%d" % k, [(p / rate + rng.choice([0, 0.3 / rate]), "m%d" % j) for j, p in enumerate(pts)], 0.0, dur))
        names.append(tg.tierNames[-1])
    before = [(t.name, type(t).__name__, [e[-1] for e in t.entries], len(t.entries)) for t in tg.tiers]
    adjP, adjI = rng.random() < 0.85, rng.random() < 0.85
    orig = {t.name: list(t.entries) for t in tg.tiers}
    try:
        out = _with_alarm(lambda: praatio_scripts.tgBoundariesToZeroCrossings(tg, wav, adjP, adjI))
    except Timeout:
        return ["tgBoundariesToZeroCrossings did not terminate"]
    except Exception as e:  # noqa
        if core.err_kind(e) in ("FindZeroCrossingError", "TextgridStateError", "ArgumentError"):
            return []
        return ["tgBoundariesToZeroCrossings raised %s: %s" % (type(e).__name__, e)]
    probs = []
    after = [(t.name, type(t).__name__, sorted(e[-1] for e in t.entries), len(t.entries)) for t in out.tiers]
    if [(a, b, sorted(c), d) for a, b, c, d in before] != after:
        probs.append("tier order / entry counts / labels changed: %r -> %r" % (before, after))
    for t in out.tiers:
        isP = type(t).__name__ == "PointTier"
        if (isP and not adjP) or (not isP and not adjI):
            if list(t.entries) != orig[t.name]:
                probs.append("tier %s was not to be adjusted but changed" % t.name)
            continue
        if not isP and [e[-1] for e in t.entries] != [e[-1] for e in orig[t.name]]:
            probs.append("interval tier %s: label order changed" % t.name)
        for e in t.entries:
            for x in e[:-1]:
                j = x * rate
                if abs(j - round(j)) > 1e-6 or not (0 <= round(j) <= n):
                    probs.append("tier %s: time %r is not on a sample position inside the recording" % (t.name, x))
                    continue
                j = round(j)
                ok = j < n and (s[j] == 0 or (j + 1 < n and (s[j] > 0) != (s[j + 1] > 0)) or (j > 0 and (s[j - 1] > 0) != (s[j] > 0)))
                if not ok:
                    probs.append("tier %s: time %r (sample %d) is not a zero crossing" % (t.name, x, j))
    return probs[:5]


def _run_splice(case):
    import random
    from praatio import praatio_scripts
    from praatio.data_classes.textgrid import Textgrid
    from praatio.data_classes.interval_tier import IntervalTier
    from praatio.data_classes.point_tier import PointTier
    rng = random.Random(case["seed"])
    rate = rng.choice([64, 8000, 16000])
    n = rng.randint(300, 900)
    per = rng.choice([16, 20, 32])
    s = [round(1000 * math.sin(2 * math.pi * i / per)) for i in range(n)]
    m = rng.randint(40, 200)
    sp = [round(700 * math.sin(2 * math.pi * (i + rng.choice([0, 3])) / per)) for i in range(m)]
    wav, spl = _wav(s, 2, rate), _wav(sp, 2, rate)
    dur = n / rate
    tg = Textgrid(0.0, dur)
    cuts = sorted(rng.sample(range(0, n + 1, 4), 2 * rng.randint(1, 4)))
    ents = [(cuts[i] / rate, cuts[i + 1] / rate, "w%d" % i) for i in range(0, len(cuts), 2)]
    tg.addTier(IntervalTier("words", ents, 0.0, dur))
    pts = sorted(rng.sample(range(0, n + 1), rng.randint(0, 3)))
    tg.addTier(PointTier("pts", [(p / rate, "m%d" % j) for j, p in enumerate(pts)], 0.0, dur))
    align = rng.random() < 0.5
    # insertion point in a gap of the target tier (insertEntry's default collision mode is an error)
    gaps = []
    prev = 0
    for a, b, _ in ents:
        if a * rate - prev > 8:
            gaps.append((prev, round(a * rate)))
        prev = round(b * rate)
    if n - prev > 8:
        gaps.append((prev, n))
    if not gaps:
        return []
    ga, gb = rng.choice(gaps)
    i0 = rng.randint(ga + 2, gb - 2) if gb - ga > 6 else ga + 1
    start = i0 / rate
    stop = None
    if rng.random() < 0.4 and gb - i0 > 4:
        stop = rng.randint(i0 + 1, gb - 1) / rate
    before = {t.name: list(t.entries) for t in tg.tiers}
    try:
        awav, atg = _with_alarm(lambda: praatio_scripts.audioSplice(wav, spl, tg, "words", "NEW", start, stop, align))
    except Timeout:
        return ["audioSplice did not terminate"]
    except Exception as e:  # noqa
        if core.err_kind(e) in ("FindZeroCrossingError", "CollisionError", "TextgridStateError", "ArgumentError"):
            return []
        return ["audioSplice raised %s: %s" % (type(e).__name__, e)]
    probs = []
    one = 1.0 / rate
    if abs(awav.duration - atg.maxTimestamp) > one + 1e-9:
        probs.append("audio lasts %r s, textgrid %r s" % (awav.duration, atg.maxTimestamp))
    words = atg.getTier("words").entries
    new = [e for e in words if e[2] == "NEW"]
    if len(new) != 1:
        probs.append("%d intervals carry the new label" % len(new))
    else:
        ns, ne, _ = new[0]
        inserted = len(awav.frames) // 2 - (n - (0 if stop is None else 0))
        # the inserted audio: the splice segment (possibly trimmed to zero crossings)
        seglen = ne - ns
        if not align and abs(seglen - m / rate) > 1e-9:
            probs.append("new interval lasts %r s, the inserted audio %r s" % (seglen, m / rate))
        if align and seglen > m / rate + 1e-9:
            probs.append("new interval (%r s) is longer than the splice segment (%r s)" % (seglen, m / rate))
        ii, jj = round(ns * rate), round(ne * rate)
        got = [int.from_bytes(awav.frames[2 * k:2 * k + 2], "little", signed=True) for k in range(ii, min(jj, len(awav.frames) // 2))]
        # the audio under the new interval is a contiguous piece of the splice segment
        if got and not any(sp[o:o + len(got)] == got for o in range(0, m - len(got) + 1)):
            probs.append("the audio under the new interval is not the inserted segment")
        limit = min(ns, start) - (0.002 + 2 * one if align else 0)
        tol = (0.002 + 2 * one) if align else 0.0
        for nm in ("words", "pts"):
            # entries inside the replaced region are erased by design: no claim about them
            def _in_region(e):
                return stop is not None and e[-2] >= start - tol and e[0] <= stop + tol
            old = [e for e in before[nm] if not _in_region(e)]
            gone = [e[-1] for e in before[nm] if _in_region(e)]
            cur = [e for e in atg.getTier(nm).entries if e[-1] != "NEW" and e[-1] not in gone]
            if [e[-1] for e in cur] != [e[-1] for e in old]:
                probs.append("tier %s: labels %r became %r" % (nm, [e[-1] for e in old], [e[-1] for e in cur]))
                continue
            for eo, ec in zip(old, cur):
                if eo[-2] < limit and tuple(eo) != tuple(ec):
                    probs.append("tier %s: entry %r ended before the insertion point but became %r" % (nm, tuple(eo), tuple(ec)))
    return probs[:5]


def _sgn(x):
    return (x > 0) - (x < 0)


def _is_crossing(s, j):
    if not 0 <= j < len(s):
        return False
    return s[j] == 0 or (j + 1 < len(s) and _sgn(s[j]) != _sgn(s[j + 1])) or (j >= 1 and _sgn(s[j - 1]) != _sgn(s[j]))


def _has_tie(case):
    """some time of the textgrid has crossings at equal distance on both sides (within the reach of the search)"""
    s = case["s"]
    cross = [j * K for j in range(len(s)) if _is_crossing(s, j)]
    times = set(x for t in case["tiers"] for e in t["entries"] for x in e[:-1])
    for t in times:
        left = [c for c in cross if c < t]
        right = [c for c in cross if c > t]
        if left and right and t - max(left) == min(right) - t:
            return True
    return False


def _run_tgzc2(case):
    from praatio import praatio_scripts
    from praatio.data_classes.textgrid import Textgrid
    from praatio.data_classes.interval_tier import IntervalTier
    from praatio.data_classes.point_tier import PointTier
    rate, s = case["rate"], case["s"]
    f = lambda tk: tk / (K * rate)  # noqa
    wav = _wav(s, 2, rate)
    tg = Textgrid(0.0, f(len(s) * K))
    for t in case["tiers"]:
        if t["kind"] == "I":
            tg.addTier(IntervalTier(t["name"], [(f(a), f(b), lab) for a, b, lab in t["entries"]], f(t["min"]), f(t["max"])))
        else:
            tg.addTier(PointTier(t["name"], [(f(a), lab) for a, lab in t["entries"]], f(t["min"]), f(t["max"])))
    out = _with_alarm(lambda: praatio_scripts.tgBoundariesToZeroCrossings(tg, wav, case["adjP"], case["adjI"]))

    def tk(x):
        v = _tick(x, rate)
        if v is None:
            raise core.OffGrid("time %r is not on the tick grid" % x)
        return v
    tiers = []
    for t in out.tiers:
        isP = type(t).__name__ == "PointTier"
        ents = [[tk(e[0]), e[1]] for e in t.entries] if isP else [[tk(e[0]), tk(e[1]), e[2]] for e in t.entries]
        tiers.append({"kind": "P" if isP else "I", "name": t.name, "entries": ents, "min": tk(t.minTimestamp), "max": tk(t.maxTimestamp)})
    return {"tiers": tiers, "min": tk(out.minTimestamp), "max": tk(out.maxTimestamp)}


def run(case):
    from praatio import audio
    op = case["op"]
    if op == "tgzc":
        return core.run_guarded(lambda: _run_tgzc(case))
    if op == "splice":
        return core.run_guarded(lambda: _run_splice(case))
    if op == "tgzc2":
        return core.run_guarded(lambda: _run_tgzc2(case))
    if op == "splice2":
        try:
            return core.run_guarded(lambda: _run_splice2(case))
        except Timeout:
            return {"timeout": True, "printed": False}
    if op == "zchist":
        def hh():
            wav = _wav(case["s"], case["w"], case["rate"])
            w_, rate_ = case["w"], case["rate"]
            recs = []
            for st in case["steps"]:
                if st["k"] == "replace":
                    wav.replaceSegment(st["a"] / rate_, st["b"] / rate_, c16._enc(st["f"], w_))
                    continue
                cur = [int.from_bytes(wav.frames[i:i + w_], "little", signed=True) for i in range(0, len(wav.frames), w_)]
                try:
                    x = _with_alarm(lambda: wav.findNearestZeroCrossing(st["t"] / (K * rate_), st["st"] / (K * rate_)))
                    tk = _tick(x, rate_)
                    recs.append({"s": cur, "t": st["t"], "st": st["st"], "out": ("ok", tk) if tk is not None else ("offgrid", x)})
                except Timeout:
                    recs.append({"s": cur, "t": st["t"], "st": st["st"], "out": ("timeout", None)})
                except Exception as e:  # noqa
                    recs.append({"s": cur, "t": st["t"], "st": st["st"], "out": ("err", core.err_kind(e))})
            return recs
        return core.run_guarded(hh)
    w, rate, s = case["w"], case["rate"], case["s"]
    t = case["t"] / (K * rate)
    d = None

    def f():
        if case["file"]:
            wav = audio.QueryWav(fn)
        else:
            wav = _wav(s, w, rate)
        try:
            if case["st"] is None:
                x = wav.findNearestZeroCrossing(t)
            else:
                x = wav.findNearestZeroCrossing(t, case["st"] / (K * rate))
        finally:
            if case["file"]:
                wav.audiofile.close()
        tk = _tick(x, rate)
        if tk is None:
            raise core.OffGrid("result %r is %r samples: not on the quarter-sample grid" % (x, x * rate))
        return tk
    try:
        if case["file"]:
            d = os.path.join(core.VERIF, ".work", "c18.%d" % os.getpid())
            os.makedirs(d, exist_ok=True)
            fn = core.fname(os.path.join(d, "a.wav"))
            _wav(s, w, rate).save(fn)
        try:
            return _with_alarm(lambda: core.run_guarded(f))
        except Timeout:
            return {"timeout": True, "printed": False}
    finally:
        if d:
            shutil.rmtree(d, ignore_errors=True)


def _st_ticks(case):
    if case["st"] is not None:
        return case["st"]
    return None


def emit_multi(case, r):
    if case["op"] == "zchist":
        terms = []
        for rec in r.get("ok", []):
            kind, v = rec["out"]
            if kind not in ("ok", "err"):
                continue
            out = "(Ok %s)" % core.cz(v) if kind == "ok" else "(Err %s)" % v
            terms.append("ZC %d %s %s %s true %s" % (K, c16.czl(rec["s"]), core.cz(rec["t"]), core.cz(rec["st"]), out))
        return terms
    t = emit(case, r)
    return [t] if t else []


def emit(case, r):
    if case["op"] == "splice2":
        if "ok" not in r and "err" not in r:
            return None
        from .. import tgops
        st = max(0, round(0.002 * case["rate"] * K))
        g = tgops.ctg({"tiers": case["tiers"], "min": 0, "max": len(case["s"]) * K})
        if "ok" in r:
            v = r["ok"]
            out = "(Ok (%s, %s))" % (c16.czl(v["samples"]), tgops.ctg({"tiers": v["tiers"], "min": v["min"], "max": v["max"]}))
        else:
            out = "(Err %s)" % r["err"]
        b = "None" if case["b"] is None else "(Some %s)" % core.cz(case["b"])
        return "SpliceC %d %s %s %s %s %s %s %s %s %s %s" % (K, c16.czl(case["s"]), c16.czl(case["seg"]), core.cz(st), g, core.ctext(case["name"]),
                                                         core.ctext(case["label"]), core.cz(case["a"]), b, core.cbool(case["align"]), out)
    if case["op"] == "tgzc2":
        if "ok" not in r and "err" not in r:
            return None
        from .. import tgops
        st = round(0.002 * case["rate"] * K)
        g = tgops.ctg({"tiers": case["tiers"], "min": 0, "max": len(case["s"]) * K})
        if "ok" in r:
            v = r["ok"]
            out = "(Ok %s)" % tgops.ctg({"tiers": v["tiers"], "min": v["min"], "max": v["max"]})
        else:
            out = "(Err %s)" % r["err"]
        return "TgZcC %d %s %s %s %s %s %s" % (K, c16.czl(case["s"]), core.cz(st), core.cbool(case["adjP"]), core.cbool(case["adjI"]), g, out)
    if case["op"] != "zc" or "timeout" in r:
        return None
    st = case["st"]
    exact = case["rate"] in RATES_DY and st is not None
    if st is None:
        # the default step 0.002 s, in ticks (only used by the oracle's error clause)
        st = round(0.002 * case["rate"] * K)
    out = "(Ok %s)" % core.cz(r["ok"]) if "ok" in r else "(Err %s)" % r["err"]
    return "ZC %d %s %s %s %s %s" % (K, c16.czl(case["s"]), core.cz(case["t"]), core.cz(st), core.cbool(exact), out)


def model_expr(case):
    if case["op"] != "zc" or case["st"] is None:
        return None
    return "find_zc %d %s %s %s" % (K, c16.czl(case["s"]), core.cz(case["t"]), core.cz(case["st"]))


def py_checks(case, r):
    if case["op"] == "zchist":
        if "ok" not in r:
            return ["zero-crossing history failed: %s" % r.get("exc", r)]
        return ["findNearestZeroCrossing %s" % ("did not terminate" if rec["out"][0] == "timeout" else "returned %r, off the sample grid" % rec["out"][1])
                for rec in r["ok"] if rec["out"][0] in ("timeout", "offgrid")]
    if case["op"] in ("tgzc", "splice"):
        if "ok" not in r:
            return ["%s harness failed: %s" % (case["op"], r.get("exc", r))]
        return r["ok"]
    if case["op"] == "tgzc2":
        if "offgrid" in r:
            return ["tgBoundariesToZeroCrossings: %s" % r["offgrid"]]
        return []
    if case["op"] == "splice2":
        if "timeout" in r:
            return ["audioSplice did not return within 3 s"]
        if "offgrid" in r:
            return ["audioSplice: %s" % r["offgrid"]]
        return []
    if "timeout" in r:
        return ["findNearestZeroCrossing did not return within 3 s (target %r ticks, step %r ticks, %d samples)" % (case["t"], case["st"], len(case["s"]))]
    return []


def classify(case, r):
    if case["op"] == "splice2":
        return "splice2/%s/%s/%s" % ("align" if case["align"] else "asis", "replace" if case["b"] is not None else "insert",
                                     "ok" if "ok" in r else "err:" + r["err"] if "err" in r else "other")
    if case["op"] != "zc":
        return case["op"]
    out = "timeout" if "timeout" in r else "err:" + r["err"] if "err" in r else "offgrid" if "offgrid" in r else "ok"
    return "zc/%s/%s/%s/%s" % ("file" if case["file"] else "mem", "dyadic" if case["rate"] in RATES_DY else "decimal",
                               "default-step" if case["st"] is None else "step<2" if case["st"] < 2 * K else "step", out)


def nontrivial(case, r):
    s = case["s"]
    return case["op"] not in ("zc",) or any(s[i] == 0 or (s[i] > 0) != (s[i + 1] > 0) for i in range(len(s) - 1))


def shrinks(case):
    if case["op"] != "zc":
        return
    s = case["s"]
    if len(s) > 4:
        half = len(s) // 2
        if case["t"] <= half * K:
            yield dict(case, s=s[:half])


def finding_match(case, r, kind, why, findings):
    return None
