"""C09 -- editTimestamps / appendTier / appendTextgrid move every entry by exactly the stated amount."""
import itertools
import sys
from .. import core, gen, tierops, tgops, obshist

ID = "C09"
MODULE = "Check.C09Check"
CASE_TYPE = "C09case"
CORR, ORACLE, HYP = "C09corr", "C09oracle", "C09hyp"
RULE = ("small scope: all wf tiers of <=3 intervals on the even grid 0..8 x offsets -10..4 x 3 reporting modes; all pairs of "
        "<=2-interval tiers for appendTier (quick: sampled) + random interval/point tiers on dyadic and decimal grids, incl. empty "
        "tiers and offsets that drop everything + round trips + Textgrid.editTimestamps/appendTextgrid (both flags, equal/"
        "overlapping/disjoint name sets); non-trivial = the tier(s) have entries")
EXPLANATION = ("Props/C09.v proves for all wf tiers: the entry list after editTimestamps is shift+drop+clip, totality (empty results "
               "included), the raise-iff clause, span monotonicity, the +x/-x round trip, and appendTier's explicit result.  This "
               "run compares implementation output (and whether a warning was printed) with model and oracle inside Coq; the "
               "Textgrid-level operations are compared tier by tier in Python against the tier-level operations.")
TRUSTED = ["models: Tier/TierModel.v edit_i, edit_p, append_i, append_p, edit1"]
ASSUMPTIONS = ["exact arithmetic in the theorems; decimal grids sampled with tolerance 1e-6 tick",
               "stdout of reportWarning is captured as 'printed / not printed'"]
MODES = list(tierops.REP)


def generate(tier, rng):
    cases = []
    small = gen.small_itiers(8, 3)
    combos = list(itertools.product(range(len(small)), range(-10, 5), MODES))
    if tier == "quick":
        combos = rng.sample(combos, min(len(combos), 2500))
    for ti, o, m in combos:
        cases.append({"op": "edit", "tier": small[ti], "args": {"o": o, "mode": m}, "scale": ["dyadic", rng.choice([0, 3])]})
    small2 = gen.small_itiers(6, 2)
    pairs = list(itertools.product(range(len(small2)), repeat=2))
    if tier == "quick":
        pairs = rng.sample(pairs, min(len(pairs), 300))
    for i, j in pairs:
        cases.append({"op": "append", "tier": small2[i], "args": {"other": small2[j]}, "scale": ["dyadic", 1]})
    nrand = 3000 if tier == "quick" else 80000
    for _ in range(nrand):
        sc = gen.pick_scale(rng, decimal_share=0.4)
        big = 60 if sc[0] == "dyadic" else 3000
        mk = gen.random_itier if rng.random() < 0.7 else gen.random_ptier
        t = mk(rng, tmax=big, maxn=rng.choice([0, 1, 3, 8]))
        t["min"] = max(t["min"], 0) if not t["entries"] else min(max(t["min"], 0), t["entries"][0][0])
        u = rng.random()
        if u < 0.55:
            o = rng.choice([rng.randint(-big - 5, big), rng.randint(-10, 10), 0])
            cases.append({"op": "edit", "tier": t, "args": {"o": o, "mode": rng.choice(MODES)}, "scale": sc})
        elif u < 0.7 and t["kind"] == "I":
            cases.append({"op": "edit_rt", "tier": t, "args": {"o": rng.randint(-20, big)}, "scale": sc})
        else:
            t2 = mk(rng, tmax=big, maxn=rng.choice([0, 1, 4]), name="other")
            t2["min"] = 0
            if t["kind"] == "P" and t["entries"] and t2["entries"] and rng.random() < 0.3:
                # the seam: A's last point right at A's end, B's first point right at B's start, and the same mark on both
                # (after the shift they are two points at one time with one label -- two points all the same)
                t["entries"][-1][0] = t["max"]
                t2["entries"][0][0] = 0
                t2["entries"][0][1] = t["entries"][-1][1]
                t2["entries"].sort()
            cases.append({"op": "append", "tier": t, "args": {"other": t2}, "scale": sc})
    for _ in range(500 if tier == "quick" else 6000):
        def mk_tg(names):
            tiers = []
            for nm in names:
                t = gen.random_itier(rng, name=nm, tmax=30, maxn=4) if nm.startswith("i") else gen.random_ptier(rng, name=nm, tmax=30, maxn=4)
                t["min"], t["max"] = 0, 30
                tiers.append(t)
            return tiers
        pool = ["i0", "i1", "p0", "p1", "i2"]
        # a textgrid without tiers still has a span (a stretch of padding to append, a result with no matching names)
        na = rng.sample(pool, rng.randint(1, 4) if rng.random() < 0.95 else 0)
        nb = rng.sample(pool, rng.randint(1, 4) if rng.random() < 0.88 else 0)
        if rng.random() < 0.5:
            A = mk_tg(na)
            if rng.random() < 0.35:
                # a tier may end before its textgrid does (the textgrid's span is given explicitly)
                for t in A:
                    if rng.random() < 0.6:
                        t["max"] = max([rng.randint(20, 29)] + [e[-2] for e in t["entries"]])
            B = mk_tg(nb)
            # every other B starts after 0 (as late as its first entry allows, at most 7): what is appended is still moved by
            # A's end, not by A's end minus B's start.  Decided without a draw: the other cases stay what they were
            firsts = [t["entries"][0][0] for t in B if t["entries"]]
            bmin = min(firsts + [7]) if (len(na) + len(nb)) % 2 == 0 and B else 0
            for t in B:
                t["min"] = bmin
            cases.append({"op": "tgappend", "A": A, "B": B, "bmin": bmin, "args": {"only": rng.random() < 0.5},
                          "scale": gen.pick_scale(rng)})
        else:
            cases.append({"op": "tgedit", "A": mk_tg(na), "args": {"o": rng.randint(-35, 20), "mode": rng.choice(MODES)},
                          "scale": gen.pick_scale(rng)})
    return cases


def _mk_tg(tiers, sc, lo=0):
    from praatio.data_classes.textgrid import Textgrid
    tg = Textgrid(sc.f(lo), sc.f(30))
    for t in tiers:
        tg.addTier(core.mk_tier(t, sc), reportingMode="silence")
    return tg


def run(case):
    sc = core.Scale(*case["scale"])
    a = case["args"]
    op = case["op"]
    if op in ("edit", "append"):
        return tierops.run_single(case)
    if op == "edit_rt":
        def f():
            t = core.mk_tier(case["tier"], sc)
            t2 = t.editTimestamps(sc.f(a["o"]), "silence").editTimestamps(-sc.f(a["o"]), "silence")
            return core.snap_tier(t2, sc)
        return core.run_guarded(f)
    if op == "tgedit":
        def g():
            tg = _mk_tg(case["A"], sc)
            r = tg.editTimestamps(sc.f(a["o"]), a["mode"])
            per = []
            for t in tg.tiers:
                per.append(core.snap_tier(t.editTimestamps(sc.f(a["o"]), "silence") if len(t.entries) > 0 else t, sc))
            return {"names": list(r.tierNames), "tiers": [core.snap_tier(x, sc) for x in r.tiers], "per_tier": per,
                    "min": core.tk(r.minTimestamp, sc), "max": core.tk(r.maxTimestamp, sc)}
        return core.run_guarded(g)
    if op == "tgappend":
        def h():
            A, B = _mk_tg(case["A"], sc), _mk_tg(case["B"], sc, case.get("bmin", 0))
            r = A.appendTextgrid(B, a["only"])
            return {"names": list(r.tierNames), "tiers": [core.snap_tier(x, sc) for x in r.tiers],
                    "min": core.tk(r.minTimestamp, sc), "max": core.tk(r.maxTimestamp, sc)}
        return core.run_guarded(h)
    raise ValueError(op)


def _ctg_out(r):
    if "ok" in r:
        v = r["ok"]
        return "(Ok %s)" % tgops.ctg({"tiers": v["tiers"], "min": v["min"], "max": v["max"]})
    return "(Err %s)" % r["err"]


def emit(case, r):
    op = case["op"]
    if op in ("tgedit", "tgappend"):
        # the whole textgrid that came back against the textgrid-level model, on exact grids
        if case["scale"][0] != "dyadic" or ("ok" not in r and "err" not in r):
            return None
        a = case["args"]
        A = tgops.ctg({"tiers": case["A"], "min": 0, "max": 30})
        if op == "tgedit":
            return "TgEditC %s %s %s %s" % (A, core.cz(a["o"]), tierops.REP[a["mode"]], _ctg_out(r))
        B = tgops.ctg({"tiers": case["B"], "min": case.get("bmin", 0), "max": 30})
        return "TgAppendC %s %s %s %s" % (A, B, core.cbool(a["only"]), _ctg_out(r))
    t, a = case["tier"], case["args"]
    I = t["kind"] == "I"
    ct, cr = (core.citier, core.citier) if I else (core.cptier, core.cptier)
    if op == "edit":
        return "%s %s %s %s %s %s" % ("EditI" if I else "EditP", ct(t), core.cz(a["o"]), tierops.REP[a["mode"]],
                                      core.cres(r, cr), core.cbool(r["printed"]))
    if op == "edit_rt":
        return "EditRT %s %s %s" % (ct(t), core.cz(a["o"]), core.cres(r, cr))
    if op == "append":
        if a["other"]["kind"] != t["kind"]:
            return None
        return "%s %s %s %s" % ("AppendI" if I else "AppendP", ct(t), ct(a["other"]), core.cres(r, cr))


def model_expr(case):
    op = case["op"]
    if op in ("tgedit", "tgappend"):
        return None
    t, a = case["tier"], case["args"]
    I = t["kind"] == "I"
    ct = core.citier if I else core.cptier
    if op == "edit":
        return "%s %s %s %s" % ("edit_i" if I else "edit_p", ct(t), core.cz(a["o"]), tierops.REP[a["mode"]])
    if op == "edit_rt":
        return "edit_rt %s %s" % (ct(t), core.cz(a["o"]))
    if op == "append" and a["other"]["kind"] == t["kind"]:
        return "%s %s %s" % ("append_i" if I else "append_p", ct(t), ct(a["other"]))


def py_checks(case, r):
    op, a = case["op"], case["args"]
    if op == "append" and a["other"]["kind"] != case["tier"]["kind"]:
        return [] if r.get("err") == "ArgumentError" else ["appendTier with mismatched tier types not rejected with ArgumentError"]
    if op == "tgedit":
        A = case["A"]
        o = a["o"]
        leaves = any((e[0] + o < 0 or e[-2] + o > 30) for t in A for e in t["entries"])
        # on the decimal grid a shifted time that equals the span's end in decimal arithmetic may be one ulp past it
        # as binary64 values (0.28 + 0.02 > 0.3): whether it "leaves the span" is then a fact about rounding, not judged here
        edge = case["scale"][0] == "decimal" and any((e[0] + o == 0 or e[-2] + o == 30) for t in A for e in t["entries"])
        if edge:
            return []
        if a["mode"] == "error" and leaves:
            return [] if r.get("err") in ("OutOfBounds", "TextgridStateAutoModified") else ["error mode did not raise: %r" % (r,)]
        if "ok" not in r:
            return ["Textgrid.editTimestamps raised %s" % r.get("exc", r)]
        v = r["ok"]
        fails = []
        if v["names"] != [t["name"] for t in A]:
            fails.append("tier names/order changed")
        if v["tiers"] != v["per_tier"]:
            fails.append("a tier differs from that tier's own editTimestamps")
        if v["min"] > 0 or v["max"] < 30:
            fails.append("textgrid span shrank")
        if bool(r["printed"]) != (a["mode"] == "warning" and leaves):
            fails.append("warning printed=%s but entries leave the span=%s under mode %s" % (r["printed"], leaves, a["mode"]))
        return fails
    if op == "tgappend":
        A, B = case["A"], case["B"]
        na, nb = [t["name"] for t in A], [t["name"] for t in B]
        if "ok" not in r:
            return ["appendTextgrid raised %s" % r.get("exc", r)]
        v = r["ok"]
        fails = []
        if a["only"]:
            exp_names = [n for n in na if n in nb]
        else:
            exp_names = na + [n for n in nb if n not in na]
        if v["names"] != exp_names:
            fails.append("tier set/order %r, documented %r" % (v["names"], exp_names))
            return fails
        if (v["min"], v["max"]) != (0, 60):
            fails.append("textgrid span %r, expected (0, 60)" % ((v["min"], v["max"]),))
        da = {t["name"]: t for t in A}
        db = {t["name"]: t for t in B}
        for nm, got in zip(v["names"], v["tiers"]):
            ea = [list(e) for e in da[nm]["entries"]] if nm in da else []
            eb = []
            if nm in db:
                for e in db[nm]["entries"]:
                    eb.append([x + 30 for x in e[:-1]] + [e[-1]])
            # a tier holds its entries in (time, label) order: that decides the order of two points landing on one time
            if got["entries"] != sorted(ea + eb, key=lambda e: tuple(e)):
                fails.append("tier %s: entries are not A's followed by B's shifted by A's end" % nm)
            if nm in db and (got["min"], got["max"]) != (0, 60):
                fails.append("tier %s: span %r" % (nm, (got["min"], got["max"])))
        return fails
    return []


def classify(case, r):
    out = "err:" + r["err"] if "err" in r else ("offgrid" if "offgrid" in r else "ok")
    kind = case["tier"]["kind"] if "tier" in case else "TG"
    extra = case["args"].get("mode", "")
    n = len(case["tier"]["entries"]) if "tier" in case else -1
    return "%s/%s/%s/%s/%s/%s" % (case["op"], kind, extra, case["scale"][0], "empty" if n == 0 else "nonempty", out)


def nontrivial(case, r):
    if "tier" in case:
        return bool(case["tier"]["entries"])
    return any(t["entries"] for t in case["A"])


def shrinks(case):
    if "tier" not in case:
        return
    for t2 in gen.shrink_tier(case["tier"]):
        c = dict(case)
        c["tier"] = t2
        yield c


def finding_match(case, r, kind, why, findings):
    return None


def _obs_term(kind, state, st, res):
    o = st["args"]["other"]
    if kind == "I":
        return "AppendI %s %s %s" % (core.citier(state), core.citier(o), obshist.res_tier(res, core.citier))
    return "AppendP %s %s %s" % (core.cptier(state), core.cptier(o), obshist.res_tier(res, core.cptier))


obshist.install(sys.modules[__name__], ["append"], ["append"], _obs_term)
