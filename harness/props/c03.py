"""C03 -- the reader returns exactly what a specification-conformant TextGrid file encodes."""
import json
import os
import shutil
from .. import core, iogen
from . import c01

ID = "C03"
MODULE = "Check.C03Check"
CASE_TYPE = "IOcase"
CORR, ORACLE, HYP = "IOcorr", "C03oracle", "C03hyp"
LAYOUTS = ["long", "short", "elan-long", "json", "textgrid_json"]
ENCODINGS = ["utf-8", "utf-8-sig", "utf-16-le", "utf-16-be"]
RULE = ("files written by an independent writer in /verif/harness (not praatio's) from random tier data: 1-4 tiers, both kinds, "
        "labels with quotes, doubled quotes, newlines, =, brackets, non-ASCII and astral characters, empty labels; times written "
        "as repr, %d, %e, %g, upper-case exponent and with a '-0' start; empty tiers; duplicate names (35% of the cases) x layout in "
        "{long, short, elan-long, json, textgrid_json} x encoding in {utf-8, utf-8-sig, utf-16-le/be with BOM} x newline in {LF, "
        "CRLF} x includeEmptyIntervals x duplicateNamesMode; non-trivial = some tier has entries")
EXPLANATION = ("Props/C03.v proves CRLF invariance of both text readers, that blank removal omits exactly the empty-labelled entries "
               "and touches nothing else, the duplicate-name policy (unique names, one per tier, untouched when already unique, "
               "error mode raises iff a name repeats) and that the long and short text fields decode every label identically.  This "
               "run opens every generated file with the real openTextgrid and compares names, order, types, spans, times "
               "(bit-identical to float(token)) and labels with the data the file was written from; the text the reader saw and the "
               "dictionary it returned are compared with the reader model inside Coq, and the name policy with its model and oracle.")
TRUSTED = ["the independent writer in harness/props/c03.py is my reading of Praat's TextGrid file formats page and of ELAN's export style "
           "(fixtures tests/files/*elan*.TextGrid) and of the README JSON schemas",
           "codecs (utf-8, utf-16 with BOM), io.open universal newlines, json.loads, float(): runtime library behaviour",
           "models: IO/IoModel.v parse_short, parse_long, remove_blanks; IO/DupNames.v open_names"]
ASSUMPTIONS = ["labels are trimmed and names are single-line, non-empty and trimmed (what well-formed tiers hold)",
               "names/labels containing the formats' structural keywords are outside this property's quantifier (they are exercised on the writer side in C02)"]


def numtok(rng, x, first=False):
    """A spec-conformant way to write the number x (returns token text, value it denotes)."""
    x = float(x)
    u = rng.random()
    if x == int(x) and abs(x) < 1e15 and u < 0.5:
        s = "%d" % x
    elif u < 0.7:
        s = repr(x)
    elif u < 0.8:
        s = "%.6e" % x
    elif u < 0.9:
        s = "%.10g" % x
    else:
        s = repr(x).upper() if "e" in repr(x) else "%.3E" % x
    if s.lower() in ("inf", "nan"):
        s = repr(x)
    if first and float(s) == 0 and rng.random() < 0.3:
        s = "-0"
    return s


def gen_data(rng, dup_share, text_layout=False):
    n = rng.randint(2, 10)
    vals = c01._times(rng, n)
    g = iogen.rand_dtg(rng, n)
    # re-express every time as a token; the value the file encodes is float(token)
    if rng.random() < dup_share and len(g["tiers"]) > 1:
        k = rng.randrange(1, len(g["tiers"]))
        g["tiers"][k]["name"] = g["tiers"][rng.randrange(0, k)]["name"]
        if len(g["tiers"]) > 2 and rng.random() < 0.5:
            g["tiers"][-1]["name"] = g["tiers"][0]["name"] + ("_2" if rng.random() < 0.5 else "")
        if len(g["tiers"]) > 2 and rng.random() < 0.5:
            # a duplicated name next to a genuinely distinct tier that already carries the suffixed name
            base = g["tiers"][0]["name"]
            pattern = rng.choice([[base, base + "_2", base], [base, base, base + "_2"], [base + "_2", base, base],
                                  [base, base + "_2", base + "_3", base, base], [base, base, base, base + "_3"]])
            for t, nm in zip(g["tiers"], pattern):
                t["name"] = nm
    if text_layout and rng.random() < 0.3:
        # a label of white space only is an empty label once trimmed (both text layouts trim before dropping blanks)
        for t in g["tiers"]:
            for e in t["entries"]:
                if rng.random() < 0.15:
                    e[-1] = rng.choice([" ", "  ", "\t", " \t "])
    toks = {}
    for k in range(n + 1):
        toks[k] = numtok(rng, vals[k], first=(k == 0))
    # tokens must stay strictly increasing as values (rounded %e/%g forms may collide)
    fl = [float(toks[k]) for k in range(n + 1)]
    for k in range(1, n + 1):
        if not fl[k] > fl[k - 1]:
            toks[k] = repr(vals[k])
            fl[k] = vals[k]
    for k in range(1, n + 1):
        if not fl[k] > fl[k - 1]:
            return gen_data(rng, dup_share, text_layout)
    return g, [toks[k] for k in range(n + 1)]


def write_text(g, toks, layout, sp):
    """Independent writer.  sp: trailing space after values (Praat writes one)."""
    T = lambda k: toks[k]  # noqa
    q = lambda s: '"' + s.replace('"', '""') + '"'  # noqa
    out = []
    if layout == "short":
        out += ['File type = "ooTextFile"', 'Object class = "TextGrid"', "", T(g["xmin"]), T(g["xmax"]), "<exists>", str(len(g["tiers"]))]
        for t in g["tiers"]:
            out += ['"IntervalTier"' if t["isint"] else '"TextTier"', q(t["name"]), T(t["xmin"]), T(t["xmax"]), str(len(t["entries"]))]
            for e in t["entries"]:
                out += [T(x) for x in e[:-1]] + [q(e[-1])]
        return "\n".join(out) + "\n"
    elan = layout == "elan-long"
    s = " " if sp else ""
    out += ['File type = "ooTextFile"', 'Object class = "TextGrid"', "", "xmin = %s%s" % (T(g["xmin"]), s), "xmax = %s%s" % (T(g["xmax"]), s),
            "tiers? <exists> ", "size = %d " % len(g["tiers"]), "item []: "]
    for i, t in enumerate(g["tiers"]):
        out.append("    item%s[%d]:" % ("" if elan else " ", i + 1))
        out.append('        class = "%s" ' % ("IntervalTier" if t["isint"] else "TextTier"))
        out.append("        name = %s " % q(t["name"]))
        out.append("        xmin = %s%s" % (T(t["xmin"]), s))
        out.append("        xmax = %s%s" % (T(t["xmax"]), s))
        kw = "intervals" if t["isint"] else "points"
        out.append("        %s: size = %d " % (kw, len(t["entries"])))
        for j, e in enumerate(t["entries"]):
            out.append("        %s [%d]%s" % (kw, j + 1, "" if elan else ":"))
            if t["isint"]:
                out.append("            xmin = %s%s" % (T(e[0]), s))
                out.append("            xmax = %s%s" % (T(e[1]), s))
                out.append("            text = %s " % q(e[2]))
            else:
                out.append("            number = %s%s" % (T(e[0]), s))
                out.append("            mark = %s " % q(e[1]))
    return "\n".join(out) + "\n"


def write_json(g, toks, layout):
    V = lambda k: float(toks[k])  # noqa
    if layout == "textgrid_json":
        d = {"xmin": V(g["xmin"]), "xmax": V(g["xmax"]),
             "tiers": [{"class": "IntervalTier" if t["isint"] else "TextTier", "name": t["name"], "xmin": V(t["xmin"]), "xmax": V(t["xmax"]),
                        "entries": [[V(x) for x in e[:-1]] + [e[-1]] for e in t["entries"]]} for t in g["tiers"]]}
    else:
        d = {"start": V(g["xmin"]), "end": V(g["xmax"]),
             "tiers": {t["name"]: {"type": "IntervalTier" if t["isint"] else "TextTier",
                                   "entries": [[V(x) for x in e[:-1]] + [e[-1]] for e in t["entries"]]} for t in g["tiers"]}}
    return json.dumps(d, ensure_ascii=False)


def encode(text, enc):
    if enc == "utf-16-le":
        return b"\xff\xfe" + text.encode("utf-16-le")
    if enc == "utf-16-be":
        return b"\xfe\xff" + text.encode("utf-16-be")
    return text.encode(enc)


def generate(tier, rng):
    cases = []
    n = 700 if tier == "quick" else 25000
    for _ in range(n):
        layout = rng.choice(LAYOUTS)
        g, toks = gen_data(rng, 0.0 if layout == "json" else 0.35, layout in ("long", "short", "elan-long"))
        cases.append({"op": "open", "g": g, "toks": toks, "layout": layout, "enc": rng.choice(ENCODINGS), "crlf": rng.random() < 0.4,
                      "sp": rng.random() < 0.7, "empty": rng.random() < 0.5, "dup": rng.choice(["error", "rename"]),
                      "scale": ["rank", 0]})
    # a tier as long as a real corpus file's (more than ten thousand entries), in the short and in the long layout
    for _ in range(1 if tier == "quick" else 6):
        cases.append({"op": "bigopen", "n": rng.randint(10050, 13000), "pts": rng.random() < 0.3, "g": {"tiers": [{"entries": [1]}]},
                      "layout": "short+long", "scale": ["rank", 0]})
    # malformed stream: valid short-form files with a random edit; the reader's outcome (dictionary or exception
    # kind) is compared with the reader model, number conversions included
    for _ in range(400 if tier == "quick" else 12000):
        g, toks = gen_data(rng, 0.0)
        mlayout = rng.choice(["short", "long", "elan-long"])
        txt = write_text(g, toks, mlayout, rng.random() < 0.7)
        lines = txt.split("\n")
        for _k in range(rng.choice([1, 1, 2])):
            u = rng.random()
            i = rng.randrange(len(lines))
            if u < 0.2:
                del lines[i]
            elif u < 0.35:
                lines.insert(i, lines[i])
            elif u < 0.5 and i + 1 < len(lines):
                lines[i], lines[i + 1] = lines[i + 1], lines[i]
            elif u < 0.65:
                j = rng.randint(0, len(lines[i]))
                lines[i] = lines[i][:j] + rng.choice(['"', '""', ' ', '=', 'x', '.', 'e', '-']) + lines[i][j:]
            elif u < 0.75:
                lines = lines[:max(1, i)]
            elif u < 0.85:
                lines.insert(i, rng.choice(["", "  ", '"IntervalTier"', '"TextTier"', "1e-05", "3", "abc", "    item [9]:", "        intervals [7]:",
                                            '        class = "IntervalTier" ', "            xmin = 3 ", '            text = "q" ', "        points [2]:"]))
            else:
                lines[i] = rng.choice(["", "x", "1.5.2", "--", "nan", "1_0", "0x10", " 7 "])
            if not lines:
                lines = [""]
        cases.append({"op": "mutshort" if mlayout == "short" else "mutlong", "g": g, "toks": toks, "text": "\n".join(lines), "layout": mlayout, "enc": "utf-8", "crlf": False,
                      "sp": True, "empty": True, "dup": "error", "scale": ["rank", 0]})
    return cases


def _int_or_float(s):
    return float(s) if ("." in s or "e" in s.lower()) else int(s)


def _candidates(text):
    cands = set()
    for line in text.replace("\r\n", "\n").split("\n"):
        pieces = [line]
        for kw in ('"IntervalTier"', '"TextTier"'):
            k = line.find(kw)
            while k != -1:
                pieces.append(line[:k])
                k = line.find(kw, k + 1)
        for pce in pieces:
            w = pce.strip()
            cands.add(w)
            if w and w[0] == '"' and w[-1] == '"':
                cands.add(w[1:-1].strip())
    return sorted(cands)


def file_text(case):
    g, toks = case["g"], case["toks"]
    if case["layout"] in ("json", "textgrid_json"):
        return write_json(g, toks, case["layout"])
    txt = write_text(g, toks, case["layout"], case["sp"])
    if case["crlf"]:
        txt = txt.replace("\n", "\r\n")
    return txt


def expected_names(names, mode):
    """the policy as the property states it: unique names in file order"""
    out = []
    for nm in names:
        if nm in out:
            if mode == "error":
                return None
            i = 2
            new = nm
            while new in out:
                new = "%s_%d" % (nm, i)
                i += 1
            nm = new
        out.append(nm)
    return out


def _run_mutshort(case):
    from praatio.utilities import textgrid_io
    text = case["text"]

    def f():
        pd = textgrid_io._parseShortTextgrid(text) if case["op"] == "mutshort" else textgrid_io._parseNormalTextgrid(text)
        return c01._rdict({"xmin": pd["xmin"], "xmax": pd["xmax"], "tiers": [dict(t, entries=list(t["entries"])) for t in pd["tiers"]]})
    return core.run_guarded(f)


def _run_bigopen(case):
    from praatio import textgrid as tgmod
    n, pts = case["n"], case["pts"]
    d = os.path.join(core.VERIF, ".work", "c03b.%d" % os.getpid())
    os.makedirs(d, exist_ok=True)
    cls = "TextTier" if pts else "IntervalTier"
    short = ['File type = "ooTextFile"', 'Object class = "TextGrid"', "", "0", str(n), "<exists>", "1", '"%s"' % cls, '"big"', "0", str(n), str(n)]
    long_ = ['File type = "ooTextFile"', 'Object class = "TextGrid"', "", "xmin = 0 ", "xmax = %d " % n, "tiers? <exists> ", "size = 1 ", "item []: ",
             "    item [1]:", '        class = "%s" ' % cls, '        name = "big" ', "        xmin = 0 ", "        xmax = %d " % n,
             "        %s: size = %d " % ("points" if pts else "intervals", n)]
    for k in range(n):
        lab = "l%d" % k
        if pts:
            short += ["%d.5" % k, '"%s"' % lab]
            long_ += ["        points [%d]:" % (k + 1), "            number = %d.5 " % k, '            mark = "%s" ' % lab]
        else:
            short += [str(k), str(k + 1), '"%s"' % lab]
            long_ += ["        intervals [%d]:" % (k + 1), "            xmin = %d " % k, "            xmax = %d " % (k + 1), '            text = "%s" ' % lab]

    def f():
        probs = []
        for nm, lines in (("short", short), ("long", long_)):
            fn = core.fname(os.path.join(d, nm + ".TextGrid"))
            with open(fn, "w", encoding="utf-8") as fh:
                fh.write("\n".join(lines) + "\n")
            tg = tgmod.openTextgrid(fn, True)
            ents = tg.getTier("big").entries
            if len(ents) != n:
                probs.append("%s layout: %d of %d entries came back" % (nm, len(ents), n))
                continue
            for k, e in enumerate(ents):
                want = (k + 0.5, "l%d" % k) if pts else (k, k + 1, "l%d" % k)
                if tuple(e) != want:
                    probs.append("%s layout: entry %d came back as %r" % (nm, k, tuple(e)))
                    break
        return probs
    try:
        return core.run_guarded(f)
    finally:
        shutil.rmtree(d, ignore_errors=True)


def run(case):
    if case["op"] == "bigopen":
        return _run_bigopen(case)
    if case["op"] in ("mutshort", "mutlong"):
        return _run_mutshort(case)
    from praatio import textgrid as tgmod
    from praatio.utilities import textgrid_io
    d = os.path.join(core.VERIF, ".work", "c03.%d" % os.getpid())
    os.makedirs(d, exist_ok=True)
    # a file is what its content says, whatever it is called
    text = file_text(case)
    import zlib
    ext = ["in.TextGrid", "in.TextGrid", "in.json", "in.JSON", "in.txt", "in.textgrid.bak", "in"][zlib.crc32(text.encode("utf-8", "replace")) % 7]
    fn = core.fname(os.path.join(d, ext))

    def f():
        with open(fn, "wb") as fh:
            fh.write(encode(text, case["enc"]))
        out = {}
        # what the reader saw after decoding, and the dictionary it returned (for the model correspondence)
        if case["layout"] not in ("json", "textgrid_json"):
            seen = text.replace("\r\n", "\n") if case["crlf"] else text     # universal newlines in io.open
            out["seen"] = seen
            try:
                pd = textgrid_io.parseTextgridStr(seen, case["empty"])
                out["parsed"] = c01._rdict({"xmin": pd["xmin"], "xmax": pd["xmax"],
                                            "tiers": [dict(t, entries=list(t["entries"])) for t in pd["tiers"]]})
            except Exception as e:  # noqa
                out["parse_err"] = core.err_kind(e)
        try:
            tg = tgmod.openTextgrid(fn, case["empty"], "silence", case["dup"])
            out["opened"] = {"names": list(tg.tierNames), "types": [t.tierType == "IntervalTier" for t in tg.tiers],
                             "span": [float(tg.minTimestamp).hex(), float(tg.maxTimestamp).hex()],
                             "tspans": [[float(t.minTimestamp).hex(), float(t.maxTimestamp).hex()] for t in tg.tiers],
                             "entries": [[[float(x).hex() for x in e[:-1]] + [e[-1]] for e in t.entries] for t in tg.tiers]}
        except Exception as e:  # noqa
            out["open_err"] = core.err_kind(e)
            out["open_exc"] = "%s: %s" % (type(e).__name__, str(e)[:160])
        return out
    try:
        return core.run_guarded(f)
    finally:
        shutil.rmtree(d, ignore_errors=True)


def emit(case, r):
    return None


def _emit_mutshort(case, r):
    import re
    text = case["text"]
    cands = _candidates(text)
    if case["op"] == "mutlong":
        # the long-form reader converts regex groups and the text between the first two '=' of a header line
        cs = set(cands)
        for m in re.finditer(r"[\d.]+(?:[eE][-+]?\d+)?", text):
            cs.add(m.group(0))
        for m in re.finditer(r"[0-9.]+(?:[eE][-+]?[0-9]+)?", text):
            cs.add(m.group(0))
        for line in text.replace("\r\n", "\n").split("\n"):
            parts = line.split("=")
            if len(parts) > 1:
                cs.add(parts[1].strip())
        cands = sorted(cs)
    floats, iofs, canon = [], [], []
    for w in cands:
        try:
            v = float(w)
            floats.append(w)
            canon.append((w, repr(v + 0.0)))
        except ValueError:
            pass
        try:
            _int_or_float(w)
            iofs.append(w)
        except ValueError:
            pass
    tl = lambda l: core.clist([core.ctext(x) for x in l], "text")  # noqa
    ctab = core.clist(["(%s, %s)" % (core.ctext(a), core.ctext(b)) for a, b in canon], "(text * text)")
    if "ok" in r:
        p = r["ok"]
        rt = {"xmin": c01._numtxt(p["xmin"]), "xmax": c01._numtxt(p["xmax"]),
              "tiers": [dict(t, xmin=c01._numtxt(t["xmin"]), xmax=c01._numtxt(t["xmax"])) for t in p["tiers"]]}
        out = "(Ok %s)" % iogen.crtg(rt)
    elif "err" in r:
        out = "(Err %s)" % r["err"]
    else:
        return []
    return ["%s %s %s %s %s %s" % ("ParseShortM" if case["op"] == "mutshort" else "ParseLongM", core.ctext(text), tl(floats), tl(iofs), ctab, out)]


def emit_multi(case, r):
    if case["op"] == "bigopen":
        return []
    if case["op"] in ("mutshort", "mutlong"):
        return _emit_mutshort(case, r)
    if "ok" not in r:
        return []
    v = r["ok"]
    terms = []
    names = [t["name"] for t in case["g"]["tiers"]]
    mode = "DupError" if case["dup"] == "error" else "DupRename"
    if "opened" in v:
        terms.append("DupNames %s %s (Ok %s)" % (mode, core.clist([core.ctext(n) for n in names], "text"),
                                                 core.clist([core.ctext(n) for n in v["opened"]["names"]], "text")))
    elif v.get("open_err") == "DuplicateTierName":
        terms.append("DupNames %s %s (Err DuplicateTierName)" % (mode, core.clist([core.ctext(n) for n in names], "text")))
    if "seen" in v and len(v["seen"]) < 6000:
        if "parsed" in v:
            p = v["parsed"]
            rt = {"xmin": c01._numtxt(p["xmin"]), "xmax": c01._numtxt(p["xmax"]),
                  "tiers": [dict(t, xmin=c01._numtxt(t["xmin"]), xmax=c01._numtxt(t["xmax"])) for t in p["tiers"]]}
            terms.append("ParseTextN %s %s %s (Ok %s)" % (core.cbool(case["empty"]), core.ctext(v["seen"]), iogen.ccanon(v["seen"]), iogen.crtg(rt)))
        elif "parse_err" in v:
            terms.append("ParseTextN %s %s %s (Err %s)" % (core.cbool(case["empty"]), core.ctext(v["seen"]), iogen.ccanon(v["seen"]), v["parse_err"]))
        if case["layout"] in ("long", "elan-long"):
            # is this file inside the hypotheses of the whole-file theorem of the layout family?
            g, toks = case["g"], case["toks"]
            tab = core.clist(["(%s, mkNum false %s %s)" % (core.cz(k), core.ctext(""), core.ctext(toks[k])) for k in range(len(toks))], "(Z * num)")
            sty = " ".join(core.ctext(x) for x in ("]:", "]" if case["layout"] == "elan-long" else "]:", " " * 8, " " * 12,
                                                     " " if case["sp"] else "", " "))
            terms.append("LongStyledC %s %s %s %s" % (sty, tab, iogen.cdtg(g), core.ctext(v["seen"])))
    return terms


def model_expr(case):
    return None


def py_checks(case, r):
    if case["op"] == "bigopen":
        return r["ok"] if "ok" in r else ["opening a conformant file with %d entries raised %s" % (case["n"], r.get("exc", r))]
    if case["op"] in ("mutshort", "mutlong"):
        return []
    if "ok" not in r:
        return ["harness failure: %s" % r.get("exc", r)]
    v = r["ok"]
    g, toks = case["g"], case["toks"]
    names = [t["name"] for t in g["tiers"]]
    exp_names = expected_names(names, case["dup"])
    if exp_names is None:
        if v.get("open_err") != "DuplicateTierName":
            return ["duplicate names with duplicateNamesMode='error' did not raise DuplicateTierName: %s" % (v.get("open_exc") or "opened")]
        return []
    if "opened" not in v:
        return ["opening a conformant %s file (%s, %s) raised %s" % (case["layout"], case["enc"], "CRLF" if case["crlf"] else "LF", v.get("open_exc"))]
    o = v["opened"]
    probs = []
    if o["names"] != exp_names:
        probs.append("tier names %r, expected %r" % (o["names"], exp_names))
        return probs
    if o["types"] != [t["isint"] for t in g["tiers"]]:
        probs.append("tier types differ")
        return probs
    H = lambda k: float(toks[k]).hex()  # noqa
    Z = lambda h: float.fromhex(h)  # noqa
    if [Z(x) for x in o["span"]] != [float(toks[g["xmin"]]), float(toks[g["xmax"]])]:
        probs.append("textgrid span %r, file says %r" % ([Z(x) for x in o["span"]], [toks[g["xmin"]], toks[g["xmax"]]]))
    for k, t in enumerate(g["tiers"]):
        if case["layout"] != "json" and [Z(x) for x in o["tspans"][k]] != [float(toks[t["xmin"]]), float(toks[t["xmax"]])]:
            probs.append("tier %d span %r, file says %r" % (k, [Z(x) for x in o["tspans"][k]], [toks[t["xmin"]], toks[t["xmax"]]]))
        want = [[H(x) for x in e[:-1]] + [e[-1].strip()] for e in t["entries"] if (case["empty"] or e[-1].strip() != "")]
        got = o["entries"][k]
        # -0 and 0 are the same time
        norm = lambda ents: [[float.fromhex(x).hex() if float.fromhex(x) != 0 else (0.0).hex() for x in e[:-1]] + [e[-1]] for e in ents]  # noqa
        if norm(got) != norm(want):
            probs.append("tier %d (%s): entries %r, file encodes %r" % (k, t["name"], got[:4], want[:4]))
    return probs[:5]


def classify(case, r):
    if case["op"] == "bigopen":
        return "bigopen/%s" % ("points" if case["pts"] else "intervals")
    if case["op"] in ("mutshort", "mutlong"):
        return "mutated-%s/%s" % (case["layout"], "parsed" if "ok" in r else "err:" + r.get("err", "?"))
    out = "crash" if "ok" not in r else ("opened" if "opened" in r["ok"] else "err:" + str(r["ok"].get("open_err")))
    return "%s/%s/%s/empty=%s/dup=%s/%s" % (case["layout"], case["enc"], "crlf" if case["crlf"] else "lf", case["empty"], case["dup"], out)


def nontrivial(case, r):
    return any(t["entries"] for t in case["g"]["tiers"])


def shrinks(case):
    if case["op"] == "bigopen":
        return
    for c in c01.shrinks(case):
        yield c


def finding_match(case, r, kind, why, findings):
    return None
