"""C02 -- written TextGrid files are well-formed and all four formats say the same."""
import math
from fractions import Fraction
from .. import core, iogen
from . import c01

ID = "C02"
MODULE = "Check.C02Check"
CASE_TYPE = "IOcase"
CORR, ORACLE, HYP = "IOcorr", "C02oracle", "C02hyp"
K = 30
DEN = 2 ** K
RULE = ("random textgrids (1-4 tiers, both kinds) whose names and labels are drawn from letters, digits, quotes, doubled quotes, "
        "newlines, =, brackets, non-ASCII and, in 45% of the cases, the formats' own keywords ('item [2]:', 'intervals [1]:', "
        "'\"IntervalTier\"', 'text = \"x\"', 'ooTextFile short', '<exists>', '! bang' ...); family A: arbitrary float times "
        "(as in C01) with the threshold disabled; family B: times on a 2^-30 s grid with minimumIntervalLength in {None, 1e-8} and "
        "min/max overrides below, equal to and above the data span; x includeBlankSpaces; every case is written in all four formats; "
        "non-trivial = some tier has entries")
EXPLANATION = ("Props/C02.v proves that the specification reader decodes the string token written for any name or label to exactly "
               "that string (keywords included), that every quote inside a written string is doubled, and that blank filling writes "
               "an ascending gap-free overlap-free partition of [xmin,xmax] (with and without the threshold).  This run writes each "
               "textgrid in the four formats with the real getTextgridAsStr, compares the text with the writer model, decodes it "
               "with the specification reader evaluated inside Coq (declared sizes = items that follow, nothing left over) and "
               "compares with the in-memory data as prepared by the model; a Python twin of the reader and the README JSON schemas "
               "give the numeric clauses: partition when blank filling is on, and identical content in all four formats.")
TRUSTED = ["Check/IoCheck.v ref_parse: the reference reader is my reading of Praat's 'TextGrid file formats' page (free-standing "
           "numbers, quoted strings with doubled quotes, <flags>, everything else comment); it defines 'well-formed' here",
           "models: IO/IoModel.v print_short, print_long, prep_tg; json.loads for the two JSON formats (runtime library)",
           "numbers are opaque tokens: near-int flag, '%d' and repr() forms computed by the harness independently of praatio"]
ASSUMPTIONS = ["README 'Output types' schemas: json = {start,end,tiers:{name:{type,entries}}}; textgrid_json = {xmin,xmax,tiers:[{class,name,xmin,xmax,entries}]}"]
FORMATS = c01.FORMATS


def generate(tier, rng):
    cases = []
    n = 500 if tier == "quick" else 15000
    for _ in range(n):
        kw = 0.5 if rng.random() < 0.45 else 0.0
        if rng.random() < 0.5:
            nn = rng.randint(2, 12)
            vals = c01._times(rng, nn)
            g = iogen.rand_dtg(rng, nn, kw_share=kw)
            cases.append({"op": "save", "fam": "A", "g": g, "vals": vals, "blanks": rng.random() < 0.6, "mn": None, "mx": None,
                          "thr": None, "scale": ["rank", 0]})
        else:
            tmax = rng.choice([DEN // 4, DEN, 3 * DEN])
            g = iogen.rand_dtg(rng, tmax, kw_share=kw, sliver=[1, 5, 11, 50] if rng.random() < 0.5 else None)
            if rng.random() < 0.25:
                g = iogen.shift_dtg(g, rng.choice([5, 1000, DEN // 8]))       # a span that does not start at 0
            mn = mx = None
            u = rng.random()
            if u < 0.12:
                mn = rng.choice([0, 0, -DEN, 5, g["xmin"]])
            if 0.08 < u < 0.25:
                mx = rng.choice([g["xmax"], g["xmax"] + DEN, g["xmax"] - 1])
            times = sorted(set(x for t in g["tiers"] for e in t["entries"] for x in e[:-1]))
            if times and rng.random() < 0.12:
                # an override that cuts through the data (a point or an interval of any tier, blank filling on or off): the save must refuse
                if rng.random() < 0.5:
                    mn, mx = rng.choice(times) + rng.choice([1, 1, 7]), None
                else:
                    mn, mx = None, rng.choice(times) - rng.choice([1, 1, 7])
            cases.append({"op": "save", "fam": "B", "g": g, "vals": None, "blanks": rng.random() < 0.7, "mn": mn, "mx": mx,
                          "thr": rng.choice([None, 1e-8, 1e-8]), "scale": ["dyadic", K]})
    # a tier as long as a transcribed hour (a thousand entries and more), labels with quotes among them
    for _ in range(1 if tier == "quick" else 5):
        nent = rng.randint(1000, 1250)
        ents, x = [], 0
        for _k in range(nent):
            d = rng.randint(20, 60)
            ents.append([x, x + d, iogen.rand_label(rng, 5) if rng.random() < 0.9 else 'say "so"'])
            x += d + (rng.randint(20, 40) if rng.random() < 0.1 else 0)
        g = {"xmin": 0, "xmax": x, "tiers": [{"isint": True, "name": "long", "xmin": 0, "xmax": x, "entries": ents},
                                             {"isint": False, "name": "p", "xmin": 0, "xmax": x, "entries": [[7, 'a"b']]}]}
        cases.append({"op": "save", "fam": "B", "g": g, "vals": None, "blanks": True, "mn": None, "mx": None, "thr": None, "scale": ["dyadic", K]})
    return cases


def _tof(case):
    if case["fam"] == "A":
        vals = case["vals"]
        return lambda k: vals[k]
    sc = core.Scale(*case["scale"])
    return sc.f


def run(case):
    from praatio.utilities import textgrid_io
    from praatio.data_classes.textgrid import _tgToDictionary
    tof = _tof(case)

    def f():
        tg = iogen.build_tg(case["g"], tof)
        out = {}
        before = c01._snap(tg)
        for fmt in FORMATS:
            try:
                out[fmt] = {"text": iogen.save_via(tg, fmt, case["blanks"],
                                                   None if case["mn"] is None else tof(case["mn"]),
                                                   None if case["mx"] is None else tof(case["mx"]), case["thr"])}
            except Exception as e:  # noqa
                out[fmt] = {"err": core.err_kind(e)}
        # the same object written again after a save with the other blank-filling setting: same text, object untouched
        hist = []
        try:
            mn = None if case["mn"] is None else tof(case["mn"])
            mx = None if case["mx"] is None else tof(case["mx"])
            textgrid_io.getTextgridAsStr(_tgToDictionary(tg), "short_textgrid", not case["blanks"], None, None, None)
            again = textgrid_io.getTextgridAsStr(_tgToDictionary(tg), "short_textgrid", case["blanks"], mn, mx, case["thr"])
            if "text" in out["short_textgrid"] and again != out["short_textgrid"]["text"]:
                hist.append("writing the same textgrid a second time gives a different short_textgrid text")
        except Exception as e:  # noqa
            if "text" in out["short_textgrid"]:
                hist.append("writing the same textgrid a second time raised %s" % type(e).__name__)
        if c01._snap(tg) != before:
            hist.append("getTextgridAsStr/_tgToDictionary changed the textgrid")
        out["history"] = hist
        return out
    return core.run_guarded(f)


def _thr(case):
    return iogen.thr_fraction(case["thr"], DEN) if case["fam"] == "B" else None


def emit(case, r):
    return None


def emit_multi(case, r):
    if "ok" not in r:
        return []
    g = case["g"]
    tab = iogen.cnumtab(iogen.all_ticks(g, (case["mn"], case["mx"])), _tof(case))
    terms = []
    for fmt, lg in (("short_textgrid", False), ("long_textgrid", True)):
        v = r["ok"][fmt]
        out = "(Ok %s)" % core.ctext(v["text"]) if "text" in v else "(Err %s)" % v["err"]
        terms.append("RefSave %s %s %s %s %s %s %s %s" % (core.cbool(lg), core.cbool(case["blanks"]), iogen.coptz(case["mn"]),
                                                         iogen.coptz(case["mx"]), iogen.cthr(_thr(case)), tab, iogen.cdtg(g), out))
    return terms


def model_expr(case):
    tab = iogen.cnumtab(iogen.all_ticks(case["g"], (case["mn"], case["mx"])), _tof(case))
    return "save_text false %s %s %s %s %s %s" % (core.cbool(case["blanks"]), iogen.coptz(case["mn"]), iogen.coptz(case["mx"]),
                                                  iogen.cthr(_thr(case)), tab, iogen.cdtg(case["g"]))


def _partition_problems(content, fmt):
    probs = []
    for t in content["tiers"]:
        if not t["isint"]:
            continue
        prev = content["xmin"]
        ok = True
        for s, e, _ in t["entries"]:
            if s != prev or not (s < e):
                ok = False
                break
            prev = e
        if ok and prev != content["xmax"]:
            ok = False
        if not ok:
            probs.append("%s: interval tier %r is not an ascending gap-free overlap-free partition of [%r, %r]: %r"
                         % (fmt, t["name"], content["xmin"], content["xmax"], [e[:2] for e in t["entries"]][:6]))
    return probs


def py_checks(case, r):
    if "ok" not in r:
        return ["save raised %s" % r.get("exc", r)]
    outs = dict(r["ok"])
    hist = outs.pop("history", [])
    if hist:
        return hist
    kinds = set("err:" + v["err"] if "err" in v else "ok" for v in outs.values())
    if len(kinds) != 1:
        return ["the four formats disagree on success/failure: %r" % {k: v.get("err", "ok") for k, v in outs.items()}]
    if "ok" not in kinds:
        return []
    probs = []
    contents = {}
    for fmt in FORMATS:
        try:
            if fmt == "json":
                contents[fmt] = iogen.content_of_json(outs[fmt]["text"])
            elif fmt == "textgrid_json":
                contents[fmt] = iogen.content_of_tgjson(outs[fmt]["text"])
            else:
                contents[fmt] = iogen.content_of_text(outs[fmt]["text"])
        except Exception as e:  # noqa
            probs.append("%s output is not a well-formed document: %s" % (fmt, str(e)[:200]))
    if probs:
        return probs
    if case["blanks"]:
        for fmt in FORMATS:
            probs.extend(_partition_problems(contents[fmt], fmt))
    # identical content; the text formats may carry a near-integer as that integer
    ref = contents["textgrid_json"]

    def near(a, b):
        return a == b or (b == int(b) and iogen.isclose14(a, b))
    for fmt in ("short_textgrid", "long_textgrid", "json"):
        c = contents[fmt]
        if [t["name"] for t in c["tiers"]] != [t["name"] for t in ref["tiers"]] or \
           [t["isint"] for t in c["tiers"]] != [t["isint"] for t in ref["tiers"]]:
            probs.append("%s: tier names/types differ from textgrid_json" % fmt)
            continue
        if not (near(ref["xmin"], c["xmin"]) and near(ref["xmax"], c["xmax"])):
            probs.append("%s: span differs from textgrid_json" % fmt)
        for tr, tc in zip(ref["tiers"], c["tiers"]):
            if fmt != "json" and not (near(tr["xmin"], tc["xmin"]) and near(tr["xmax"], tc["xmax"])):
                probs.append("%s: tier %r span differs" % (fmt, tr["name"]))
            if len(tr["entries"]) != len(tc["entries"]):
                probs.append("%s: tier %r has %d entries, textgrid_json %d" % (fmt, tr["name"], len(tc["entries"]), len(tr["entries"])))
                continue
            for er, ec in zip(tr["entries"], tc["entries"]):
                if er[-1] != ec[-1] or not all(near(a, b) for a, b in zip(er[:-1], ec[:-1])):
                    probs.append("%s: tier %r entry %r differs from textgrid_json %r" % (fmt, tr["name"], ec, er))
                    break
    return probs[:6]


def classify(case, r):
    if "ok" not in r:
        return "fam%s/crash" % case["fam"]
    out = "err" if "err" in r["ok"]["short_textgrid"] else "ok"
    return "fam%s/blanks=%s/thr=%s/mn=%s/mx=%s/%s" % (case["fam"], case["blanks"], case["thr"], "set" if case["mn"] is not None else "-",
                                                      "set" if case["mx"] is not None else "-", out)


def nontrivial(case, r):
    return any(t["entries"] for t in case["g"]["tiers"])


shrinks = c01.shrinks


def finding_match(case, r, kind, why, findings):
    from . import c04
    if not (why.startswith("oracle") or "partition" in why):
        return None
    for f in findings:
        if f.get("matcher", {}).get("pred") == "all_intervals_below_threshold" and case["thr"] is not None and case["blanks"] \
                and case["fam"] == "B":
            g = case["g"]
            mn = case["mn"] if case["mn"] is not None else g["xmin"]
            mx = case["mx"] if case["mx"] is not None else g["xmax"]
            thr = iogen.thr_fraction(case["thr"], DEN)
            for t in g["tiers"]:
                if t["isint"] and all(x < thr for x in c04._filled_lengths(t, mn, mx)):
                    return f["id"]
    return None
