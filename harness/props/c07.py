"""C07 -- eraseRegion blanks exactly the region and shrinks time by exactly its length."""
import itertools
from .. import core, gen, tierops

ID = "C07"
MODULE = "Check.C07Check"
CASE_TYPE = "C07case"
CORR, ORACLE, HYP = "C07corr", "C07oracle", "C07hyp"
RULE = ("small scope: all wf tiers of <=3 intervals on the even grid 0..8 x all regions 0..8 (even and odd) x 3 modes x shrink "
        "(quick: sampled) + random tiers on dyadic grids and on decimal grids (3-decimal times; the family where binary64 "
        "rounding of t-(b-a) matters) + point tiers + Textgrid.eraseRegion; non-trivial = proper in-span region overlapping or "
        "preceding at least one entry")
EXPLANATION = ("Props/C07.v proves, for all wf tiers and in-span regions, totality and the explicit result of eraseRegion, its "
               "label function with and without shrinking, exactness for entries outside the region, the one-interval straddler, "
               "categorical and error modes.  This run compares implementation output with the model and with a clause-by-clause "
               "boolean oracle inside Coq; decimal-grid cases decide the 'never fails because of rounding' clause by evaluation.")
TRUSTED = ["models: Tier/TierModel.v erase_i, erase_p, cut_out, shrink1, join_at (single-pass form of the delete/re-insert code of interval_tier.eraseRegion)"]
ASSUMPTIONS = ["exact arithmetic in the theorems; binary64 behaviour is sampled on decimal grids (tolerance 1e-6 tick)",
               "distinct entries are never math.isclose"]


def generate(tier, rng):
    cases = []
    small = gen.small_itiers(8, 3)
    regs = [(a, b) for a in range(0, 9) for b in range(0, 9)]
    combos = list(itertools.product(range(len(small)), regs, tierops.ERASE, (True, False)))
    if tier == "quick":
        combos = rng.sample(combos, min(len(combos), 3500))
    for ti, (a, b), m, sh in combos:
        cases.append({"op": "erase", "tier": small[ti], "args": {"a": a, "b": b, "mode": m, "shrink": sh},
                      "scale": ["dyadic", rng.choice([0, 3])]})
    nrand = 3000 if tier == "quick" else 80000
    for _ in range(nrand):
        sc = gen.pick_scale(rng, decimal_share=0.5)
        if rng.random() < 0.8:
            t = gen.random_itier(rng, tmax=60 if sc[0] == "dyadic" else 3000, maxn=8, long_p=0.025)
        else:
            t = gen.random_ptier(rng, tmax=60 if sc[0] == "dyadic" else 3000, long_p=0.025, distinct=rng.random() < 0.75)
        lo, hi = t["min"], t["max"]
        a, b = rng.randint(lo, hi), rng.randint(lo, hi)
        if t["entries"] and rng.random() < 0.5:
            bs = [x for e in t["entries"] for x in e[:-1]]
            a = rng.choice(bs)
            if rng.random() < 0.4:
                b = rng.choice(bs)
        if a > b and rng.random() < 0.9:
            a, b = b, a
        cases.append({"op": "erase", "tier": t, "args": {"a": a, "b": b, "mode": rng.choice(list(tierops.ERASE)),
                                                         "shrink": rng.random() < 0.6}, "scale": sc})
    for _ in range(400 if tier == "quick" else 6000):
        tiers = []
        for k in range(rng.randint(1, 3)):
            t = gen.random_itier(rng, name="i%d" % k, tmax=40) if rng.random() < 0.6 else gen.random_ptier(rng, name="p%d" % k, tmax=40)
            t["min"], t["max"] = 0, max(40, t["max"])
            tiers.append(t)
        mx = max(t["max"] for t in tiers)
        for t in tiers:
            t["max"] = mx
            # the last entry often ends exactly where the tier ends (what blank filling and Praat produce)
            if t["kind"] == "I" and t["entries"] and rng.random() < 0.4:
                t["entries"][-1][1] = mx
            if t["kind"] == "P" and t["entries"] and rng.random() < 0.3 and all(e[0] < mx for e in t["entries"]):
                t["entries"][-1][0] = mx           # a point right at the end of the span
        a, b = sorted((rng.randint(0, mx), rng.randint(0, mx)))
        # a textgrid may span more than its tiers do (Textgrid(min, max) given explicitly, or after removeTier)
        tgmax = mx + rng.randint(1, 9) if rng.random() < 0.35 else mx
        shrink = rng.random() < 0.6
        if rng.random() < 0.08:
            # a region that only touches the span: it begins where the textgrid ends (or where the tiers end); nothing to
            # shrink there, but a point right on that time belongs to the region
            a = rng.choice([mx, tgmax])
            b = a + rng.randint(1, 5)
            shrink = False
        cases.append({"op": "tgerase", "tiers": tiers, "tgmax": tgmax, "args": {"a": a, "b": b, "shrink": shrink},
                      "scale": gen.pick_scale(rng, decimal_share=0.6)})
    return cases


def run(case):
    if case["op"] != "tgerase":
        return tierops.run_single(case)
    sc = core.Scale(*case["scale"])
    a, b, sh = sc.f(case["args"]["a"]), sc.f(case["args"]["b"]), case["args"]["shrink"]
    from praatio.data_classes.textgrid import Textgrid

    def f():
        tg = Textgrid(sc.f(0), sc.f(case.get("tgmax", case["tiers"][0]["max"])))
        built = [core.mk_tier(t, sc) for t in case["tiers"]]
        for x in built:
            tg.addTier(x, reportingMode="silence")
        r = tg.eraseRegion(a, b, sh)
        per = [core.snap_tier(x.eraseRegion(a, b, "truncate", sh), sc) for x in built]
        return {"names": list(r.tierNames), "tiers": [core.snap_tier(x, sc) for x in r.tiers], "per_tier": per,
                "min": core.tk(r.minTimestamp, sc), "max": core.tk(r.maxTimestamp, sc), "valid": r.validate("silence")}
    return core.run_guarded(f)


def emit(case, r):
    if case["op"] == "tgerase":
        return None
    t, a = case["tier"], case["args"]
    if t["kind"] == "I":
        return "EraseI %s %s %s %s %s %s" % (core.citier(t), core.cz(a["a"]), core.cz(a["b"]), tierops.ERASE[a["mode"]],
                                             core.cbool(a["shrink"]), core.cres(r, core.citier))
    return "EraseP %s %s %s %s %s" % (core.cptier(t), core.cz(a["a"]), core.cz(a["b"]), core.cbool(a["shrink"]),
                                      core.cres(r, core.cptier))


def model_expr(case):
    if case["op"] == "tgerase":
        return None
    t, a = case["tier"], case["args"]
    if t["kind"] == "I":
        return "erase_i %s %s %s %s %s" % (core.citier(t), core.cz(a["a"]), core.cz(a["b"]), tierops.ERASE[a["mode"]], core.cbool(a["shrink"]))
    return "erase_p %s %s %s %s" % (core.cptier(t), core.cz(a["a"]), core.cz(a["b"]), core.cbool(a["shrink"]))


def py_checks(case, r):
    if case["op"] != "tgerase":
        return []
    a, b, sh = case["args"]["a"], case["args"]["b"], case["args"]["shrink"]
    if a >= b:
        return [] if r.get("err") == "ArgumentError" else ["degenerate region not rejected with ArgumentError: %r" % (r,)]
    if "ok" not in r:
        return ["Textgrid.eraseRegion raised %s on a proper in-span region" % r.get("exc", r)]
    v = r["ok"]
    fails = []
    if v["names"] != [t["name"] for t in case["tiers"]]:
        fails.append("tier names/order changed")
    if v["tiers"] != v["per_tier"]:
        fails.append("a tier of the result differs from that tier's own eraseRegion(truncate)")
    mx = case.get("tgmax", case["tiers"][0]["max"])
    if (v["min"], v["max"]) != (0, mx - (b - a) if sh else mx):
        fails.append("textgrid span %r, expected %r" % ((v["min"], v["max"]), (0, mx - (b - a) if sh else mx)))
    if not v["valid"] and mx == case["tiers"][0]["max"]:
        fails.append("result does not validate()")
    return fails


def classify(case, r):
    a = case["args"]
    kind = "degenerate" if a["a"] >= a["b"] else "proper"
    out = "err:" + r["err"] if "err" in r else ("offgrid" if "offgrid" in r else "ok")
    tk = case["tier"]["kind"] if "tier" in case else "TG"
    return "%s/%s/%s/%s/%s/%s" % (tk, a.get("mode", "-"), "shrink" if a["shrink"] else "keep", case["scale"][0], kind, out)


def nontrivial(case, r):
    a = case["args"]
    if a["a"] >= a["b"]:
        return False
    if "tiers" in case:
        return any(t["entries"] for t in case["tiers"])
    return any(e[0] < a["b"] for e in case["tier"]["entries"])


def shrinks(case):
    if "tiers" in case:
        return
    for t2 in gen.shrink_tier(case["tier"]):
        c = dict(case)
        c["tier"] = t2
        yield c


def finding_match(case, r, kind, why, findings):
    for f in findings:
        m = f.get("matcher", {})
        if m.get("pred") == "decimal_grid_shrink" and case["scale"][0] == "decimal" and case["args"].get("shrink"):
            return f["id"]
    return None
