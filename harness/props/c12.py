"""C12 -- a Textgrid is an ordered, uniquely-named tier map and edits act tier-wise."""
import itertools
from .. import core, gen, tgops, tierops
from . import c06, c07, c08, c09, c10

ID = "C12"
MODULE = "Check.C12Check"
CASE_TYPE = "C12case"
CORR, ORACLE, HYP = "C12corr", "C12oracle", "C12hyp"
RULE = ("operation sequences over a small universe (4 names, <=5 slots, indices -2..len+2, 3 reporting modes, tiers with spans inside "
        "and beyond the textgrid's): all sequences to depth 2 (quick) / 3 (thorough) from three start states plus random sequences "
        "of length <=6, each compared after every call with the model and the plain ordered-list model; tier-wise crop/eraseRegion/"
        "insertSpace/editTimestamps on random multi-tier textgrids; non-trivial = sequence length >= 2")
EXPLANATION = ("Props/C12.v proves that every successful mutator leaves the tier list the plain ordered-list model prescribes, that "
               "names stay unique and the invariant holds along every history, that duplicates are rejected, that the span only "
               "widens, and that Textgrid.crop acts tier-wise with all tiers sharing the textgrid's span (strict/truncated).  This run "
               "replays mutator histories on real Textgrid objects and compares state and outcome after every call inside Coq; the "
               "tier-wise clauses for eraseRegion/insertSpace/editTimestamps are compared in the harness against the tier-level "
               "operations (which C07-C09 tie to their models).")
TRUSTED = ["models: Textgrid/TgModel.v add_step, remove_step, replace_step, rename_step, tg_crop (written from data_classes/textgrid.py)",
           "OrderedDict insertion order and list.insert index semantics (py_insert)"]
ASSUMPTIONS = ["tier names are generated stripped; the empty name occurs as a renameTier argument"]
NAMES = ["a", "b", "c", "d"]
MODES = ["silence", "warning", "error"]


def _tier(rng, name, wide=False):
    t = gen.random_itier(rng, name=name, tmax=20, maxn=2) if rng.random() < 0.6 else gen.random_ptier(rng, name=name, tmax=20, maxn=2)
    t["min"], t["max"] = (0, 20) if not wide else (rng.choice([-2, 0]), rng.choice([20, 25]))
    return t


def _rand_op(rng, nslots):
    u = rng.random()
    if u < 0.4:
        # names differ as strings differ: "a" and "A" are two names
        return {"op": "add", "tier": _tier(rng, rng.choice(NAMES + ["A"]), rng.random() < 0.3),
                "idx": rng.choice([None, None] + list(range(-2, nslots + 3))), "mode": rng.choice(MODES)}
    if u < 0.6:
        return {"op": "remove", "name": rng.choice(NAMES)}
    if u < 0.8:
        # "" is a name like any other (Praat's unnamed tier)
        return {"op": "rename", "old": rng.choice(NAMES + [""]), "new": rng.choice(NAMES + ["", ""])}
    return {"op": "replace", "name": rng.choice(NAMES), "tier": _tier(rng, rng.choice(NAMES), rng.random() < 0.3), "mode": rng.choice(MODES)}


def _all_ops(rng):
    ops = []
    for nm in NAMES[:3]:
        for idx in (None, -1, 0, 1, 5):
            ops.append({"op": "add", "tier": _tier(rng, nm), "idx": idx, "mode": "warning"})
        ops.append({"op": "add", "tier": _tier(rng, nm, True), "idx": None, "mode": "error"})
        ops.append({"op": "remove", "name": nm})
        for nm2 in NAMES[:3]:
            ops.append({"op": "rename", "old": nm, "new": nm2})
            ops.append({"op": "replace", "name": nm, "tier": _tier(rng, nm2, nm2 == "c"), "mode": "error" if nm2 == "c" else "warning"})
    return ops


def generate(tier, rng):
    cases = []
    starts = [{"tiers": [], "min": None, "max": None},
              {"tiers": [], "min": None, "max": 15},          # only one bound given: the other is taken from the first tier
              {"tiers": [], "min": 3, "max": None},
              {"tiers": [], "min": None, "max": 30},          # ... and the bound that was given lies beyond every tier: it stays
              {"tiers": [], "min": -5, "max": None},
              {"tiers": [_tier(rng, "a"), _tier(rng, "b")], "min": 0, "max": 20},
              {"tiers": [_tier(rng, "b"), _tier(rng, "c"), _tier(rng, "a")], "min": 0, "max": 20}]
    allops = _all_ops(rng)
    depth = 2 if tier == "quick" else 3
    for g0 in starts:
        seqs = itertools.product(allops, repeat=depth)
        seqs = list(seqs)
        if tier == "quick":
            seqs = rng.sample(seqs, min(len(seqs), 500))
        elif len(seqs) > 20000:
            seqs = rng.sample(seqs, 20000)
        for seq in seqs:
            cases.append({"op": "tghist", "g": g0, "args": {"ops": list(seq)}, "scale": ["dyadic", 1]})
    for _ in range(800 if tier == "quick" else 20000):
        g0 = rng.choice(starts)
        ops = [_rand_op(rng, 4) for _k in range(rng.randint(1, 6))]
        cases.append({"op": "tghist", "g": g0, "args": {"ops": ops}, "scale": ["dyadic", 1]})
    # replaceTier with a tier that differs from the current one only in the last bit of some times (grid of binary64
    # neighbours): it is another tier, and afterwards the name maps to it
    for _ in range(80 if tier == "quick" else 3000):
        t = _tier(rng, "a")
        dbl = lambda x: 2 * x  # noqa
        t = dict(t, min=0, max=40, entries=[[dbl(x) for x in e[:-1]] + [e[-1]] for e in t["entries"]])
        bump = {x: (rng.choice([0, 1]) if x < 40 else 0) for e in t["entries"] for x in e[:-1]}
        twin = dict(t, entries=[[x + bump[x] for x in e[:-1]] + [e[-1]] for e in t["entries"]])
        other = dict(_tier(rng, "b"), min=0, max=40)
        other["entries"] = [[2 * x for x in e[:-1]] + [e[-1]] for e in other["entries"]]
        g0 = {"tiers": [t, other] if rng.random() < 0.5 else [other, t], "min": 0, "max": 40}
        ops = [{"op": "replace", "name": "a", "tier": twin, "mode": rng.choice(MODES)}]
        if rng.random() < 0.5:
            ops.append({"op": "replace", "name": "a", "tier": t, "mode": "warning"})
        cases.append({"op": "tghist", "g": g0, "args": {"ops": ops}, "scale": ["near", 1]})
    # tier-wise edits: reuse the textgrid-level generators of C06-C09
    for mod, ops in ((c06, ("tgcrop",)), (c07, ("tgerase",)), (c08, ("tgspace",)), (c09, ("tgedit",)), (c10, ("mergeTiers",))):
        sub = [c for c in mod.generate("quick", rng) if c["op"] in ops]
        for c in sub[: (150 if tier == "quick" else 100000)]:
            cases.append({"op": "tierwise", "via": mod.ID, "case": c, "scale": c["scale"]})
    return cases


_MODS = {"C06": c06, "C07": c07, "C08": c08, "C09": c09, "C10": c10}


def run(case):
    if case["op"] == "tierwise":
        return _MODS[case["via"]].run(case["case"])
    sc = core.Scale(*case["scale"])

    def f():
        start, recs = tgops.run_history(case["g"], case["args"]["ops"], sc)
        return {"start": start, "recs": recs}
    return core.run_guarded(f)


def _emit_tierwise(case, r):
    """the whole textgrid a copy-returning edit gave back, against the textgrid-level model (exact grids)"""
    c = case["case"]
    if c["op"] not in ("tgcrop", "tgerase", "tgspace") or c["scale"][0] != "dyadic" or ("ok" not in r and "err" not in r):
        return None
    if "ok" in r:
        v = r["ok"]
        out = "(Ok %s)" % tgops.ctg({"tiers": v["tiers"], "min": v["min"], "max": v["max"]})
    else:
        out = "(Err %s)" % r["err"]
    tiers = c["tiers"]
    if c["op"] == "tgcrop":
        g = tgops.ctg({"tiers": tiers, "min": min(t["min"] for t in tiers), "max": max(t["max"] for t in tiers)})
        return "TgCropC %s %s %s %s %s %s" % (g, core.cz(c["a"]), core.cz(c["b"]), tierops.CROP[c["mode"]], core.cbool(c["rebase"]), out)
    a = c["args"]
    if c["op"] == "tgerase":
        g = tgops.ctg({"tiers": tiers, "min": 0, "max": c.get("tgmax", tiers[0]["max"])})
        return "TgEraseC %s %s %s %s %s" % (g, core.cz(a["a"]), core.cz(a["b"]), core.cbool(a["shrink"]), out)
    if c["op"] == "tgspace":
        g = tgops.ctg({"tiers": tiers, "min": min(t["min"] for t in tiers), "max": max(t["max"] for t in tiers)})
        return "TgSpaceC %s %s %s %s %s" % (g, core.cz(a["s"]), core.cz(a["d"]), tierops.SPACE[a["mode"]], out)
    return None


def emit(case, r):
    if case["op"] == "tierwise":
        return _emit_tierwise(case, r)
    if "ok" not in r:
        return None
    return tgops.emit_hist(r["ok"]["start"], case["args"]["ops"], r["ok"]["recs"])


def model_expr(case):
    return None


def py_checks(case, r):
    if case["op"] == "tierwise":
        return _MODS[case["via"]].py_checks(case["case"], r)
    if "ok" not in r:
        return ["history harness failed: %r" % (r,)]
    return []


def classify(case, r):
    if case["op"] == "tierwise":
        return "tierwise/%s" % case["case"]["op"]
    nerr = sum(1 for x in r.get("ok", {}).get("recs", []) if x[0] is not None)
    return "tghist/len%d/errors%d" % (len(case["args"]["ops"]), nerr)


def nontrivial(case, r):
    return case["op"] == "tierwise" or len(case["args"]["ops"]) >= 2


def shrinks(case):
    if case["op"] != "tghist":
        return
    ops = case["args"]["ops"]
    for k in range(len(ops) - 1, 0, -1):
        c = dict(case)
        c["args"] = {"ops": ops[:k]}
        yield c
    for k in range(len(ops)):
        c = dict(case)
        c["args"] = {"ops": ops[:k] + ops[k + 1:]}
        if c["args"]["ops"]:
            yield c


def finding_match(case, r, kind, why, findings):
    return None
