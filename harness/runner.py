"""Generic decision procedure of one check (DESIGN.md 3.7)."""
import json
import os
import random
import shutil
import sys
import time
import collections

from . import core


def _eval_all(P, wd, cases, tag):
    """Run implementation + Coq on the cases.  Returns dict with per-case info."""
    results = [P.run(c) for c in cases]
    terms, idx = [], []
    py_fail = {}
    offgrid = []
    for i, (c, r) in enumerate(zip(cases, results)):
        fs = P.py_checks(c, r)
        if fs:
            py_fail[i] = fs
        if "offgrid" in r:
            offgrid.append(i)
            continue
        if hasattr(P, "emit_multi"):
            for t in P.emit_multi(c, r):
                terms.append(t)
                idx.append(i)
            continue
        t = P.emit(c, r)
        if t is None:
            continue
        terms.append(t)
        idx.append(i)
    funs = [P.CORR, P.ORACLE, P.HYP]
    # an oracle that excuses exactly the recorded known findings: a case failing it too is never suppressed
    relaxed = getattr(P, "ORACLE_EXCUSING_KNOWN", None)
    if relaxed:
        funs.append(relaxed)
    fails, broken = core.coq_eval_cases(wd, P.MODULE, P.CASE_TYPE, terms, funs, tag=tag)
    corr_fail = sorted(set(idx[k] for k in fails[P.CORR]))
    oracle_fail = sorted(set(idx[k] for k in fails[P.ORACLE]))
    outside_hyp = set(idx[k] for k in fails[P.HYP])
    unexcused = set(idx[k] for k in fails[relaxed]) if relaxed else None
    return {"results": results, "corr_fail": corr_fail, "oracle_fail": oracle_fail, "unexcused": unexcused,
            "outside_hyp": outside_hyp, "py_fail": py_fail, "offgrid": offgrid,
            "broken": broken, "evaluated_in_coq": len(terms)}


def _write_replay(P, wd, case, result, kind, why, seed, n, extra=None):
    path = os.path.join(os.environ.get("VERIF_REPLAY_DIR", os.path.join(core.VERIF, "replays")), "%s-%d-%d.json" % (P.ID, seed, n))
    model_txt = None
    try:
        expr = P.model_expr(case)
        if expr:
            model_txt = core.coq_show(wd, P.MODULE, expr, tag="show%d" % n)
    except Exception as e:  # noqa
        model_txt = "unavailable: %s" % e
    rep = {"property": P.ID, "kind": kind, "why": why, "seed": seed, "case": case,
           "impl": {k: v for k, v in result.items()} if isinstance(result, dict) else result,
           "model": model_txt}
    if extra:
        rep.update(extra)
    core.write_json(path, rep)
    return path


def shrink(P, wd, case, pred, budget=60):
    """Greedy shrinking through P.shrinks(case) while pred(case) stays true."""
    if not hasattr(P, "shrinks"):
        return case
    cur = case
    steps = 0
    improved = True
    deadline = time.time() + 45          # shrinking is a courtesy to the reader of the replay, not part of the verdict
    while improved and steps < budget and time.time() < deadline:
        improved = False
        for cand in P.shrinks(cur):
            steps += 1
            if steps > budget or time.time() > deadline:
                break
            try:
                if pred(cand):
                    cur = cand
                    improved = True
                    break
            except Exception:  # noqa
                continue
    return cur


def _single_fails(P, wd, case, which, tag="shr"):
    r = P.run(case)
    if which == "py":
        return bool(P.py_checks(case, r))
    if "offgrid" in r:
        return False
    ts = P.emit_multi(case, r) if hasattr(P, "emit_multi") else [P.emit(case, r)]
    ts = [t for t in ts if t is not None]
    if not ts:
        return False
    fun = P.ORACLE if which == "oracle" else P.CORR
    fails, broken = core.coq_eval_cases(wd, P.MODULE, P.CASE_TYPE, ts, [fun], tag=tag)
    return bool(fails[fun])


def main(P, argv):
    import argparse
    ap = argparse.ArgumentParser()
    ap.add_argument("--tier", default=os.environ.get("VERIF_TIER", "quick"))
    ap.add_argument("--replay")
    ap.add_argument("--no-proofs", action="store_true")
    args = ap.parse_args(argv)
    tier = "thorough" if args.tier.startswith("t") else "quick"
    seed = int(os.environ.get("VERIF_SEED", core.DEFAULT_SEED))
    t0 = time.time()
    wd = core.workdir(P.ID)
    try:
        rc = _main(P, args, tier, seed, t0, wd)
    finally:
        shutil.rmtree(wd, ignore_errors=True)
    return rc


def _main(P, args, tier, seed, t0, wd):
    rng = random.Random(seed)
    findings = core.load_findings(P.ID)

    # ---- 0. build + proofs
    brc, blog = core.ensure_built()
    proofs = {"ok": False, "theorems": [], "axioms": [], "closed": 0, "log": blog}
    forbidden = core.forbidden_scan()
    if brc == 0:
        proofs = core.recheck_props(P.ID, wd)
    facts = P.facts(wd) if hasattr(P, "facts") else core.source_facts(P.ID, wd)
    proofs_ok = brc == 0 and proofs["ok"] and not forbidden and facts["ok"]
    coqchk = None
    if tier == "thorough" and brc == 0 and os.environ.get("VERIF_NO_COQCHK") != "1":
        coqchk = core.run_coqchk(P.ID) if hasattr(core, "run_coqchk") else None

    # ---- replay mode
    if args.replay:
        with open(args.replay) as fh:
            rep = json.load(fh)
        case = rep["case"]
        if case is None:
            print("replay names a broken obligation, not an input: %s" % rep.get("why"))
            print("proofs ok now: %s" % proofs_ok)
            return 0 if proofs_ok else 1
        ev = _eval_all(P, wd, [case], "replay")
        bad = ev["oracle_fail"] or ev["py_fail"] or ev["corr_fail"] or ev["broken"]
        print("impl:", json.dumps(ev["results"][0], default=str)[:2000])
        print("model:", core.coq_show(wd, P.MODULE, P.model_expr(case)) if P.model_expr(case) else None)
        print("oracle_fail=%s corr_fail=%s py_fail=%s" % (bool(ev["oracle_fail"]), bool(ev["corr_fail"]), ev["py_fail"]))
        if bad:
            print("VIOLATION property=%s replay=%s" % (P.ID, args.replay))
            return 1
        print("replay passes on the current tree")
        return 0

    # ---- 1. cases: corpus first, then generated
    cases = []
    cdir = os.path.join(core.VERIF, "corpus", P.ID)
    if os.path.isdir(cdir):
        for fn in sorted(os.listdir(cdir)):
            with open(os.path.join(cdir, fn)) as fh:
                cases.append(json.load(fh)["case"])
    ncorpus = len(cases)
    cases.extend(P.generate(tier, rng))

    ev = _eval_all(P, wd, cases, "main")
    results = ev["results"]

    # ---- 2. verdicts
    violations = []      # (kind, index, why)
    known_hits = collections.OrderedDict()

    def classify_failure(i, kind, why, unexcused=None):
        c, r = cases[i], results[i]
        fid = P.finding_match(c, r, kind, why, findings) if hasattr(P, "finding_match") else None
        if fid and unexcused is not None and i in unexcused:
            fid = None          # fails even with the known finding excused: a different violation
        if fid:
            known_hits.setdefault(fid, []).append(i)
        else:
            violations.append((kind, i, why))

    for i in ev["oracle_fail"]:
        classify_failure(i, "counterexample", "oracle (extracted statement of the property) is false on the implementation's output", ev.get("unexcused"))
    for i, fs in ev["py_fail"].items():
        classify_failure(i, "counterexample", "; ".join(fs))
    for i in ev["offgrid"]:
        classify_failure(i, "counterexample", "result off the time grid: " + results[i]["offgrid"])
    # the same inputs in a process started differently (python -O, C locale, warnings as errors, shallow stack, bare
    # file names, nothing remembered from earlier calls) must give what the main process gave
    env_ran, env_diffs, env_info = 0, [], {}
    if not os.environ.get("VERIF_NO_ENVPASS"):
        env_ran, env_diffs, env_info = core.env_pass(P.ID, wd, cases, results, 300 if tier == "quick" else 3000)
        for i, got in env_diffs:
            if i in ev["py_fail"] or i in ev["oracle_fail"] or i in ev["offgrid"]:
                continue
            classify_failure(i, "counterexample", "the result depends on how the interpreter was started (second process: python -O, "
                             "LC_ALL=C without UTF-8 mode, DeprecationWarning as error, shallow stack, bare file names): there it "
                             "gave %s" % json.dumps(got)[:400])
    oracle_bad = set(ev["oracle_fail"]) | set(ev["py_fail"]) | set(ev["offgrid"]) | set(i for i, _ in env_diffs)
    corr_only = [i for i in ev["corr_fail"] if i not in oracle_bad]

    search_note = None
    if (corr_only or not proofs_ok or ev["broken"]) and not violations:
        # something no longer checks but no failing input yet: search harder
        search_note = "escalated search"
        rng2 = random.Random(seed + 1)
        extra = P.generate("thorough", rng2)
        # keep the search proportionate to the tier: the quick tier looks at most 8x further than it already did
        cap = int(os.environ.get("VERIF_SEARCH_CAP", 0)) or (max(4000, 8 * len(cases)) if tier == "quick" else len(extra))
        if len(extra) > cap:
            rng2.shuffle(extra)
            extra = extra[:cap]
        search_note = "escalated search over %d further cases" % len(extra)
        ev2 = _eval_all(P, wd, extra, "search")
        base = len(cases)
        cases.extend(extra)
        results.extend(ev2["results"])
        for i in ev2["oracle_fail"]:
            classify_failure(base + i, "counterexample", "oracle false on implementation output (found by escalated search)")
        for i, fs in ev2["py_fail"].items():
            classify_failure(base + i, "counterexample", "; ".join(fs))
        for i in ev2["offgrid"]:
            classify_failure(base + i, "counterexample", "result off the time grid")
        ev["evaluated_in_coq"] += ev2["evaluated_in_coq"]

    lines = []
    rc = 0
    nrep = 0
    reported_inputs = 0
    for kind, i, why in violations[:5]:
        c = cases[i]
        try:
            which = "py" if i in ev["py_fail"] else "oracle"
            c2 = shrink(P, wd, c, lambda cc: _single_fails(P, wd, cc, which))
        except Exception:  # noqa
            c2 = c
        r2 = P.run(c2)
        path = _write_replay(P, wd, c2, r2, kind, why, seed, nrep, {"shrunk_from": c if c2 != c else None})
        nrep += 1
        lines.append("VIOLATION property=%s replay=%s" % (P.ID, path))
        rc = 1
        reported_inputs += 1
    if not violations:
        if not proofs_ok:
            why = []
            if brc != 0:
                why.append("the Coq development no longer builds: " + blog[-800:])
            elif not proofs["ok"]:
                why.append("theorems in Props/%s.v no longer check: %s" % (P.ID, proofs["log"][-800:]))
            if forbidden:
                why.append("forbidden vernacular: " + "; ".join(forbidden[:5]))
            if not facts["ok"]:
                why.append("source-facts obligation no longer checks: " + facts["log"][-800:])
            path = _write_replay(P, wd, None, {}, "broken-proof", " | ".join(why), seed, nrep)
            lines.append("VIOLATION property=%s replay=%s no-failing-input-found" % (P.ID, path))
            rc = 1
        elif corr_only:
            i = corr_only[0]
            c2 = shrink(P, wd, cases[i], lambda cc: _single_fails(P, wd, cc, "corr"))
            path = _write_replay(P, wd, c2, P.run(c2), "broken-correspondence",
                                 "implementation and model disagree on this input (%d such inputs); the property oracle "
                                 "holds on all %d inputs explored, including the escalated search" % (len(corr_only), len(cases)),
                                 seed, nrep)
            lines.append("VIOLATION property=%s replay=%s no-failing-input-found" % (P.ID, path))
            rc = 1
        elif ev["broken"]:
            path = _write_replay(P, wd, None, {}, "broken-correspondence",
                                 "Coq evaluation of the case files failed: " + ev["broken"][0]["out"][-800:], seed, nrep)
            lines.append("VIOLATION property=%s replay=%s no-failing-input-found" % (P.ID, path))
            rc = 1
    for fid, idxs in known_hits.items():
        f = [x for x in findings if x["id"] == fid][0]
        lines.append("KNOWN-FINDING: property=%s %s -- %s (%d inputs this run)" % (P.ID, fid, f["what"], len(idxs)))

    # ---- 3. evidence
    dist = collections.Counter()
    keys = set()
    nontriv = set()
    for c, r in zip(cases, results):
        b = P.classify(c, r)
        dist[b] += 1
        k = core.case_key([c, {kk: vv for kk, vv in r.items() if kk != "exc"}])
        keys.add(k)
        if P.nontrivial(c, r):
            nontriv.add(k)
    samples = []
    step = max(1, len(cases) // 4)
    for i in range(ncorpus, len(cases), step):
        samples.append({"case": cases[i], "impl": {k: v for k, v in results[i].items() if k != "exc"}})
        if len(samples) >= 4:
            break
    nthm = len(proofs["theorems"])
    obligations = nthm + facts.get("lemmas", 0) + 1
    discharged = (nthm if proofs["ok"] else 0) + (facts.get("lemmas", 0) if facts["ok"] else 0) + (0 if forbidden else 1)
    evidence = {
        "property_id": P.ID, "tier": tier, "seed": seed, "level": "proof",
        "wall_s": round(time.time() - t0, 2),
        "violations": len(violations) + (1 if (rc == 1 and not violations) else 0),
        "coverage": {
            "obligations": obligations, "discharged": discharged,
            "checker_cmd": "coqc -Q coq/theories PraatIO coq/theories/Props/%s.v (after make -C coq); "
                           "forbidden-vernacular scan; coqc <generated case files> (vm_compute)" % P.ID,
            "trusted_base": core.TRUSTED_BASE_COMMON + P.TRUSTED + [
                "axioms reported by Print Assumptions for Props/%s.v: %s" % (
                    P.ID, ", ".join(proofs["axioms"]) if proofs["axioms"] else
                    "none (%d theorems Closed under the global context)" % proofs["closed"])],
            "theorems": proofs["theorems"],
            "theorems_closed_under_global_context": proofs["closed"],
            "forbidden_vernacular_hits": forbidden,
            "source_facts": {k: v for k, v in facts.items() if k != "log"},
            "coqchk": coqchk,
            "evaluations": len(cases),
            "evaluated_in_coq": ev["evaluated_in_coq"],
            "distinct_nontrivial": len(nontriv),
            "distinct": len(keys),
            "rule": P.RULE,
            "samples": samples,
            "input_distribution": dict(sorted(dist.items())),
            "inside_theorem_hypotheses": ev["evaluated_in_coq"] - len(ev["outside_hyp"]),
            "correspondence_disagreements": len(ev["corr_fail"]),
            "oracle_failures": len(ev["oracle_fail"]),
            "python_oracle_failures": len(ev["py_fail"]),
            "offgrid_results": len(ev["offgrid"]),
            "known_findings_hit": {k: len(v) for k, v in known_hits.items()},
            "corpus_cases": ncorpus,
            "second_process": {"cases_rerun": env_ran, "differences": len(env_diffs), "python_O": env_info.get("debug") is False,
                               "encoding": env_info.get("encoding"), "environment": core.ENV_OTHER},
            "search": search_note,
            "exhaustive": False,
            "explanation": P.EXPLANATION,
        },
        "assumptions": P.ASSUMPTIONS,
    }
    core.write_json(os.path.join(os.environ.get("VERIF_EVIDENCE_DIR", os.path.join(core.VERIF, "evidence")), "%s.json" % P.ID), evidence)
    for ln in lines:
        print(ln)
    print("%s %s: %d cases (%d in Coq, %d distinct non-trivial), theorems %d/%d, corr-disagreements %d, oracle-failures %d, %.1fs"
          % (P.ID, tier, len(cases), ev["evaluated_in_coq"], len(nontriv), nthm if proofs["ok"] else 0, nthm,
             len(ev["corr_fail"]), len(ev["oracle_fail"]) + len(ev["py_fail"]), time.time() - t0))
    return rc
