"""Generators and glue for the TextGrid I/O checks (C01-C04)."""
import json
import os
from fractions import Fraction
from . import core

LABEL_ALPHABET = ["a", "b", "z", "0", "7", " ", '"', '""', "\n", "=", "[", "]", ":", "é", " ", " ", "\U0001d11e",
                  "-", ".", "<", ">", "!", "\t", "'", "\\",
                  # text that a Unicode normalisation, a case fold or a white-space clean-up would change
                  "e\u0301", "\u212b", "\u1100\u1161", "\ufb01", "\u200d", "\x0c", "\x85", "\u0130",
                  # invisible characters that are not white space (they stay, also at the edge of a label), a comment-like line
                  "\ufeff", "\u200b", "\n!", "\n !x", "%", "%s"]
KEYWORDS = ['item [2]:', 'intervals [1]:', 'points [3]:', '"IntervalTier"', 'IntervalTier', '"TextTier"', 'text = "x"',
            'ooTextFile short', 'item [', 'xmin = 5', 'name = "q"', 'size = 3', '<exists>', 'class = "IntervalTier"',
            'mark = "m"', 'number = 1', 'intervals: size = 0', '! bang']


def rand_label(rng, maxlen=6, kw_share=0.0):
    if rng.random() < kw_share:
        s = rng.choice(KEYWORDS)
        if rng.random() < 0.3:
            s = rand_label(rng, 2) + s + rand_label(rng, 2)
    elif maxlen >= 6 and rng.random() < 0.015:
        # now and then a long label (a transcribed sentence, a comment)
        s = "".join(rng.choice(LABEL_ALPHABET) for _ in range(rng.randint(120, 260)))
    else:
        s = "".join(rng.choice(LABEL_ALPHABET) for _ in range(rng.randint(0, maxlen)))
    return s.strip()


def rand_name(rng, kw_share=0.0):
    for _ in range(20):
        s = rand_label(rng, 5, kw_share).replace("\n", " ").strip()
        if s:
            return s
    return "tier"


def rand_dtg(rng, tmax, ntiers=None, kw_share=0.0, names_unique=True, sliver=None, gaps=True):
    """A well-formed textgrid in ticks: tiers share the span [0, tmax]."""
    tiers = []
    names = set()
    many = rng.random() < 0.05           # now and then enough tiers / entries for two-digit indices in the file
    for k in range(ntiers if ntiers is not None else (rng.randint(10, 12) if many else rng.randint(1, 4))):
        nm = rand_name(rng, kw_share)
        while names_unique and nm in names:
            nm = nm + "x"
        names.add(nm)
        isint = rng.random() < 0.65
        ents = []
        if isint:
            x = 0 if rng.random() < 0.5 else rng.randint(0, tmax // 8)
            while x < tmax and len(ents) < (13 if (many or rng.random() < 0.05) and k == 0 else 7):
                if sliver and rng.random() < 0.35:
                    d = rng.choice(sliver)
                else:
                    d = rng.randint(1, max(1, tmax // 5))
                e = min(tmax, x + d)
                if e > x:
                    ents.append([x, e, rand_label(rng, 6, kw_share) if rng.random() < 0.85 else ""])
                x = e
                if gaps and rng.random() < 0.4:
                    x += rng.choice(sliver) if (sliver and rng.random() < 0.4) else rng.randint(1, max(1, tmax // 6))
                if rng.random() < 0.15:
                    break
            if sliver and ents and rng.random() < 0.45:
                # slivers and sliver-wide gaps at the two ends of the tier, single and in chains
                lab = lambda: rand_label(rng, 4, kw_share) or "s"
                if rng.random() < 0.6:
                    d = rng.choice(sliver)
                    if ents[-1][1] == tmax and ents[-1][0] < tmax - d and rng.random() < 0.5:
                        ents[-1][1] = tmax - d                      # the last interval stops a sliver short of the end
                    elif ents[-1][1] <= tmax - d:
                        x0 = tmax - d if rng.random() < 0.6 else ents[-1][1]
                        if x0 + d <= tmax:
                            ents.append([x0, x0 + d, lab()])        # a last interval that is a sliver
                if rng.random() < 0.6:
                    chain = [rng.choice(sliver) for _ in range(rng.randint(1, 3))]
                    o = rng.choice([0, rng.choice(sliver)])
                    if ents[0][0] >= o + sum(chain):
                        if rng.random() < 0.5:
                            o = ents[0][0] - sum(chain)             # the chain touches the first long interval
                        pre = []
                        for d in chain:
                            pre.append([o, o + d, lab()])
                            o += d
                        ents = pre + ents
        else:
            for x in sorted(rng.sample(range(0, tmax + 1), rng.randint(0, min(5, tmax)))):
                ents.append([x, rand_label(rng, 6, kw_share)])
        if rng.random() < 0.08:
            ents = []                      # tiers without entries are legal and common (a fresh annotation layer)
        tiers.append({"isint": isint, "name": nm, "xmin": 0, "xmax": tmax, "entries": ents})
    return {"xmin": 0, "xmax": tmax, "tiers": tiers}


def shift_dtg(g, base):
    """the same textgrid with every time moved by base ticks (a span that does not start at 0)"""
    def sh(e):
        return [x + base for x in e[:-1]] + [e[-1]]
    return {"xmin": g["xmin"] + base, "xmax": g["xmax"] + base,
            "tiers": [dict(t, xmin=t["xmin"] + base, xmax=t["xmax"] + base, entries=[sh(e) for e in t["entries"]]) for t in g["tiers"]]}


_SAVE_DIR = None


def save_via(tg, fmt, blanks, mn, mx, thr):
    """The text Textgrid.save writes (through the public wrapper, not the io function it wraps)."""
    global _SAVE_DIR
    import os
    import tempfile
    if _SAVE_DIR is None or not os.path.isdir(_SAVE_DIR):
        _SAVE_DIR = tempfile.mkdtemp(prefix="verif-save.")
        import atexit
        import shutil
        atexit.register(shutil.rmtree, _SAVE_DIR, True)
    fn = core.fname(os.path.join(_SAVE_DIR, "%d.out" % os.getpid()))
    # the path holds an earlier annotation; a save that refuses (raises) must leave it as it was
    earlier = 'File type = "ooTextFile"\nObject class = "TextGrid"\n\n0\n1\n<absent>\n'
    with open(fn, "w", encoding="utf-8", newline="") as fh:
        fh.write(earlier)
    try:
        tg.save(fn, fmt, blanks, mn, mx, thr, "silence")
    except Exception:
        left = None
        if os.path.exists(fn):
            with open(fn, "r", encoding="utf-8", newline="") as fh:
                left = fh.read()
        if left != earlier:
            raise core.OffGrid("the save raised, yet the file that was at the path before is %s" %
                               ("gone" if left is None else "changed (%d characters left)" % len(left)))
        raise
    with open(fn, "r", encoding="utf-8", newline="") as fh:
        text = fh.read()
    # saving over a file that is already there: whatever the path held before (the same annotation with other line
    # ends, a cut-off copy, something else), afterwards it holds what this call writes
    kind = len(text) % 7
    old = {0: text.replace("\n", "\r\n"), 1: text.replace("\n", "\r"), 2: text[:len(text) // 2], 3: text + "\n"}.get(kind)
    if old is not None and old != text:
        with open(fn, "w", encoding="utf-8", newline="") as fh:
            fh.write(old)
        tg.save(fn, fmt, blanks, mn, mx, thr, "silence")
        with open(fn, "r", encoding="utf-8", newline="") as fh:
            again = fh.read()
        if again != text:
            return again
    return text


def build_tg(g, tof):
    """dtg (ticks) -> praatio Textgrid; tof: tick -> float."""
    from praatio.data_classes.textgrid import Textgrid
    from praatio.data_classes.interval_tier import IntervalTier
    from praatio.data_classes.point_tier import PointTier
    from praatio.utilities.constants import Interval, Point
    tg = Textgrid(tof(g["xmin"]), tof(g["xmax"]))
    for t in g["tiers"]:
        if t["isint"]:
            tier = IntervalTier(t["name"], [Interval(tof(s), tof(e), lab) for s, e, lab in t["entries"]], tof(t["xmin"]), tof(t["xmax"]))
        else:
            tier = PointTier(t["name"], [Point(tof(x), lab) for x, lab in t["entries"]], tof(t["xmin"]), tof(t["xmax"]))
        tg.addTier(tier, reportingMode="silence")
    return tg


def isclose14(a, b):
    return abs(a - b) <= max(1e-14 * max(abs(a), abs(b)), 0.0)


def token(x):
    """The lexical forms my_math.numToStr chooses between, computed independently."""
    x = float(x)
    return {"near_int": isclose14(x, int(x)), "int_str": "%d" % x, "repr_str": repr(x)}


def all_ticks(g, extra=()):
    s = set([g["xmin"], g["xmax"]])
    for t in g["tiers"]:
        s.add(t["xmin"])
        s.add(t["xmax"])
        for e in t["entries"]:
            for x in e[:-1]:
                s.add(x)
    for x in extra:
        if x is not None:
            s.add(x)
    return sorted(s)


# ---------------------------------------------------------------- Coq emission

def cdentry(e):
    if len(e) == 3:
        return "(DI %s %s %s)" % (core.cz(e[0]), core.cz(e[1]), core.ctext(e[2]))
    return "(DP %s %s)" % (core.cz(e[0]), core.ctext(e[1]))


def cdtier(t):
    return "(mkDT %s %s %s %s %s)" % (core.cbool(t["isint"]), core.ctext(t["name"]), core.cz(t["xmin"]), core.cz(t["xmax"]),
                                      core.clist([cdentry(e) for e in t["entries"]], "dentry"))


def cdtg(g):
    return "(mkDTG %s %s %s)" % (core.cz(g["xmin"]), core.cz(g["xmax"]), core.clist([cdtier(t) for t in g["tiers"]], "dtier"))


def cnumtab(ticks, tof):
    items = []
    for k in ticks:
        tk = token(tof(k))
        items.append("(%s, mkNum %s %s %s)" % (core.cz(k), core.cbool(tk["near_int"]), core.ctext(tk["int_str"]), core.ctext(tk["repr_str"])))
    return core.clist(items, "(Z * num)")


def coptz(x):
    return "None" if x is None else "(Some %s)" % core.cz(x)


def cthr(thr):
    """thr: None or Fraction (in ticks)."""
    if thr is None:
        return "None"
    return "(Some (%d, %d))" % (thr.numerator, thr.denominator)


def crentry(e):
    if len(e) == 3:
        return "(RI %s %s %s)" % (core.ctext(e[0]), core.ctext(e[1]), core.ctext(e[2]))
    return "(RP %s %s)" % (core.ctext(e[0]), core.ctext(e[1]))


def crtg(r):
    tiers = []
    for t in r["tiers"]:
        tiers.append("(mkRT %s %s %s %s %s)" % (core.cbool(t["isint"]), core.ctext(t["name"]), core.ctext(t["xmin"]), core.ctext(t["xmax"]),
                                                core.clist([crentry(e) for e in t["entries"]], "rentry")))
    return "(mkRTG %s %s %s)" % (core.ctext(r["xmin"]), core.ctext(r["xmax"]), core.clist(tiers, "rtier"))


# ---------------------------------------------------------------- decoding implementation output

def dtg_from_json(txt, totick):
    """textgrid_json text -> dtg in ticks."""
    d = json.loads(txt)
    tiers = []
    for t in d["tiers"]:
        isint = t["class"] == "IntervalTier"
        ents = []
        for e in t["entries"]:
            ents.append([totick(x) for x in e[:-1]] + [e[-1]])
        tiers.append({"isint": isint, "name": t["name"], "xmin": totick(t["xmin"]), "xmax": totick(t["xmax"]), "entries": ents})
    return {"xmin": totick(d["xmin"]), "xmax": totick(d["xmax"]), "tiers": tiers}


def num_token_text(x):
    """How parseTextgridStr leaves a tier-level number: float or int -> canonical text for comparison."""
    return repr(x)


def workfile(prop, name):
    d = os.path.join(core.VERIF, ".work", "%s.io.%d" % (prop, os.getpid()))
    os.makedirs(d, exist_ok=True)
    return os.path.join(d, name)


def thr_fraction(minlen, den):
    """threshold (seconds, float or None) -> exact Fraction in ticks of 1/den."""
    if minlen is None:
        return None
    return Fraction(minlen) * den


def ccanon(text):
    """table: number-like token -> repr(float(token)), for every candidate token of the text"""
    import re
    cands = set()
    for line in text.replace("\r\n", "\n").split("\n"):
        w = line.strip()
        cands.add(w)
        if "=" in w:
            cands.add(w.split("=")[1].strip())
    for m in re.finditer(r"[0-9.]+", text):
        cands.add(m.group(0))
    items = []
    for w in sorted(cands):
        if not w or len(w) > 40:
            continue
        try:
            v = float(w)
        except ValueError:
            continue
        items.append("(%s, %s)" % (core.ctext(w), core.ctext(repr(v + 0.0))))   # -0.0 and 0.0 are one time
    return core.clist(items, "(text * text)")


# ---------------------------------------------------------------- independent Praat text reader (Python twin of ref_parse)

def py_ref_tokens(text):
    """Free-standing tokens of a Praat text file: numbers, "strings" with doubled
    quotes, <flags>; everything else is comment.  Written from Praat's TextGrid
    file formats page, independently of praatio."""
    import re
    toks = []
    i, n = 0, len(text)
    numre = re.compile(r"-?[0-9]+(\.[0-9]+)?([eE][-+]?[0-9]+)?\Z")
    while i < n:
        c = text[i]
        if c.isspace():
            i += 1
        elif c == '"':
            j = i + 1
            buf = []
            while True:
                if j >= n:
                    raise ValueError("unterminated string")
                if text[j] == '"':
                    if j + 1 < n and text[j + 1] == '"':
                        buf.append('"')
                        j += 2
                        continue
                    break
                buf.append(text[j])
                j += 1
            toks.append(("str", "".join(buf)))
            i = j + 1
        elif c == "!":
            while i < n and text[i] != "\n":
                i += 1
        else:
            j = i
            while j < n and not text[j].isspace():
                j += 1
            w = text[i:j]
            if w.startswith("<") and w.endswith(">"):
                toks.append(("flag", w))
            elif numre.match(w):
                toks.append(("num", w))
            i = j
    return toks


def py_ref_parse(text):
    t = py_ref_tokens(text)
    pos = [0]

    def nxt(kind):
        if pos[0] >= len(t) or t[pos[0]][0] != kind:
            raise ValueError("expected %s at token %d, got %r" % (kind, pos[0], t[pos[0]] if pos[0] < len(t) else None))
        pos[0] += 1
        return t[pos[0] - 1][1]
    if nxt("str") != "ooTextFile" or nxt("str") != "TextGrid":
        raise ValueError("bad header")
    xmin, xmax = nxt("num"), nxt("num")
    if nxt("flag") != "<exists>":
        raise ValueError("bad flag")
    ntiers = int(nxt("num"))
    tiers = []
    for _ in range(ntiers):
        cls, name = nxt("str"), nxt("str")
        if cls not in ("IntervalTier", "TextTier"):
            raise ValueError("bad class %r" % cls)
        tmin, tmax, cnt = nxt("num"), nxt("num"), int(nxt("num"))
        ents = []
        for _ in range(cnt):
            if cls == "IntervalTier":
                ents.append([nxt("num"), nxt("num"), nxt("str")])
            else:
                ents.append([nxt("num"), nxt("str")])
        tiers.append({"isint": cls == "IntervalTier", "name": name, "xmin": tmin, "xmax": tmax, "entries": ents})
    if pos[0] != len(t):
        raise ValueError("%d tokens left over" % (len(t) - pos[0]))
    return {"xmin": xmin, "xmax": xmax, "tiers": tiers}


def content_of_text(text):
    """decoded content with numeric times"""
    r = py_ref_parse(text)
    return {"xmin": float(r["xmin"]), "xmax": float(r["xmax"]),
            "tiers": [{"isint": t["isint"], "name": t["name"], "xmin": float(t["xmin"]), "xmax": float(t["xmax"]),
                       "entries": [[float(x) for x in e[:-1]] + [e[-1]] for e in t["entries"]]} for t in r["tiers"]]}


def content_of_tgjson(text):
    d = json.loads(text)
    if set(d.keys()) != {"xmin", "xmax", "tiers"} or not isinstance(d["tiers"], list):
        raise ValueError("textgrid_json: top-level keys %r" % sorted(d.keys()))
    tiers = []
    for t in d["tiers"]:
        if set(t.keys()) != {"class", "name", "xmin", "xmax", "entries"}:
            raise ValueError("textgrid_json: tier keys %r" % sorted(t.keys()))
        if t["class"] not in ("IntervalTier", "TextTier"):
            raise ValueError("textgrid_json: class %r" % t["class"])
        k = 3 if t["class"] == "IntervalTier" else 2
        for e in t["entries"]:
            if len(e) != k or not isinstance(e[-1], str) or not all(isinstance(x, (int, float)) for x in e[:-1]):
                raise ValueError("textgrid_json: entry %r" % (e,))
        tiers.append({"isint": t["class"] == "IntervalTier", "name": t["name"], "xmin": float(t["xmin"]), "xmax": float(t["xmax"]),
                      "entries": [[float(x) for x in e[:-1]] + [e[-1]] for e in t["entries"]]})
    return {"xmin": float(d["xmin"]), "xmax": float(d["xmax"]), "tiers": tiers}


def content_of_json(text):
    d = json.loads(text)
    if set(d.keys()) != {"start", "end", "tiers"} or not isinstance(d["tiers"], dict):
        raise ValueError("json: top-level keys %r" % sorted(d.keys()))
    tiers = []
    for name, t in d["tiers"].items():
        if set(t.keys()) != {"type", "entries"}:
            raise ValueError("json: tier keys %r" % sorted(t.keys()))
        if t["type"] not in ("IntervalTier", "TextTier"):
            raise ValueError("json: type %r" % t["type"])
        k = 3 if t["type"] == "IntervalTier" else 2
        for e in t["entries"]:
            if len(e) != k or not isinstance(e[-1], str) or not all(isinstance(x, (int, float)) for x in e[:-1]):
                raise ValueError("json: entry %r" % (e,))
        tiers.append({"isint": t["type"] == "IntervalTier", "name": name, "xmin": float(d["start"]), "xmax": float(d["end"]),
                      "entries": [[float(x) for x in e[:-1]] + [e[-1]] for e in t["entries"]]})
    return {"xmin": float(d["start"]), "xmax": float(d["end"]), "tiers": tiers}
