"""Second process, other environment: the same cases, run again by an interpreter started the way some users start it
(python -O: asserts stripped, __debug__ False; C locale without UTF-8 mode: open() without an encoding is ASCII;
DeprecationWarning / FutureWarning raised as errors; a shallow stack; bare file names relative to the working directory;
a fresh process, so nothing a module remembered from earlier calls).  Whatever the library returned in the main process
it must return here: a difference means the behaviour depends on the process environment, not on the input."""
import importlib
import json
import os
import sys


def norm(r):
    """what is compared: everything but the text of an exception message (it may quote a path)"""
    if isinstance(r, dict):
        return {k: norm(v) for k, v in sorted(r.items()) if k != "exc"}
    if isinstance(r, (list, tuple)):
        return [norm(x) for x in r]
    if isinstance(r, float):
        return repr(r)
    return r


def main(path):
    with open(path, encoding="utf-8") as fh:
        job = json.load(fh)
    P = importlib.import_module("harness.props.%s" % job["prop"].lower())
    # the depth the harness itself needs is small; a library call that recurses per loop iteration runs out early
    base = len(__import__("inspect").stack())
    sys.setrecursionlimit(base + int(os.environ.get("VERIF_STACK", job.get("stack", 130))))
    diffs = []
    for k, (case, want) in enumerate(zip(job["cases"], job["results"])):
        try:
            got = norm(json.loads(json.dumps(P.run(case), default=str)))
        except RecursionError as e:  # noqa
            got = {"raised": "RecursionError"}
        except BaseException as e:  # noqa
            got = {"raised": "%s: %s" % (type(e).__name__, str(e)[:200])}
        if got != want:
            diffs.append({"k": k, "got": got})
    with open(job["out"], "w", encoding="utf-8") as fh:
        json.dump({"ran": len(job["cases"]), "diffs": diffs, "debug": bool(__debug__),
                   "encoding": __import__("locale").getpreferredencoding(False)}, fh)


if __name__ == "__main__":
    main(sys.argv[1])
