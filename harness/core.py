"""Shared machinery of the checks: running the implementation from /repo's
working tree, emitting Coq terms, evaluating model/oracle inside Coq
(vm_compute), re-checking the property theorems, verdict, evidence, replay."""
import contextlib
import io
import json
import os
import re
import shutil
import subprocess
import sys
import time
import hashlib
from concurrent.futures import ThreadPoolExecutor

VERIF = os.path.dirname(os.path.dirname(os.path.abspath(__file__)))
REPO = os.environ.get("VERIF_REPO", "/repo")
COQ = os.path.join(VERIF, "coq")
THEORIES = os.path.join(COQ, "theories")
DEFAULT_SEED = 20260926

# the implementation under test: always /repo's working tree
sys.path.insert(0, REPO)
os.environ.setdefault("PYTHONHASHSEED", "0")

COQ_ARGS = ["-Q", THEORIES, "PraatIO", "-w",
            "-notation-overridden,-deprecated-hint-without-locality,-deprecated-instance-without-locality"]

ERRMAP = {
    "ArgumentError": "ArgumentError", "CollisionError": "CollisionError",
    "TextgridStateError": "TextgridStateError", "OutOfBounds": "OutOfBounds",
    "TierNameExistsError": "TierNameExistsError",
    "TextgridStateAutoModified": "TextgridStateAutoModified",
    "WrongOption": "WrongOption", "ParsingError": "ParsingError",
    "DuplicateTierName": "DuplicateTierName", "SafeZipException": "SafeZipException",
    "FindZeroCrossingError": "FindZeroCrossingError",
    "TimelessTextgridTierException": "TimelessTier",
    "BadKlattGridFormat": "BadKlattGridFormat", "BadFormatException": "BadFormatException",
}


def err_kind(exc):
    """Map an exception to the model's error enum (messages never compared)."""
    return ERRMAP.get(type(exc).__name__, "PyError")


class Scale:
    """Time grid: tick n <-> float n / base**k.  dyadic grids are exact in
    binary64 for the magnitudes used; decimal grids are not, results are
    mapped to the nearest tick and the residual is bounded."""

    def __init__(self, kind, k):
        self.kind, self.k = kind, k
        self.den = (2 if kind == "dyadic" else 10) ** k

    def f(self, n):
        if self.kind == "near":
            # order-isomorphic grid of binary64 neighbours: tick 2m is m/10, tick 2m+1 the next float above it
            # (0.3 and 0.1+0.2); only for operations that select and compare times but compute no new ones
            import math
            base = (n // 2) / 10.0
            return math.nextafter(base, math.inf) if n % 2 else base
        return n / self.den

    def tick(self, x):
        """float -> (tick, ok).  ok is False when x is not (close to) on the grid."""
        if self.kind == "near":
            import math
            m = round(x * 10)
            if x == m / 10.0:
                return 2 * m, True
            if x == math.nextafter(m / 10.0, math.inf):
                return 2 * m + 1, True
            return 2 * m, False
        v = x * self.den
        n = round(v)
        if self.kind == "dyadic":
            return n, (v == n)
        return n, abs(v - n) <= 1e-6

    def json(self):
        return [self.kind, self.k]


class OffGrid(Exception):
    pass


@contextlib.contextmanager
def captured_stdout():
    buf = io.StringIO()
    with contextlib.redirect_stdout(buf):
        yield buf


# ---------------------------------------------------------------- Coq terms

def cz(n):
    return "(%d)" % n if n < 0 else "%d" % n


def ctext(s):
    if not s:
        return "(@nil N)"
    return "[" + ";".join(str(ord(c)) for c in s) + "]%N"


def cbool(b):
    return "true" if b else "false"


def clist(items, ty=None):
    if not items:
        return "(@nil %s)" % ty if ty else "[]"
    return "[" + "; ".join(items) + "]"


def cinterval(e):
    return "(mkI %s %s %s)" % (cz(e[0]), cz(e[1]), ctext(e[2]))


def cpoint(e):
    return "(mkP %s %s)" % (cz(e[0]), ctext(e[1]))


def citier(t):
    return "(mkIT %s %s %s %s)" % (ctext(t["name"]), clist([cinterval(e) for e in t["entries"]], "interval"),
                                   cz(t["min"]), cz(t["max"]))


def cptier(t):
    return "(mkPT %s %s %s %s)" % (ctext(t["name"]), clist([cpoint(e) for e in t["entries"]], "point"),
                                   cz(t["min"]), cz(t["max"]))


def ctier(t):
    return citier(t) if t["kind"] == "I" else cptier(t)


def cres(r, okfmt):
    if "err" in r:
        return "(Err %s)" % r["err"]
    return "(Ok %s)" % okfmt(r["ok"])


def copt(x, fmt):
    return "None" if x is None else "(Some %s)" % fmt(x)


# ---------------------------------------------------------------- impl glue

def mk_itier(t, sc):
    from praatio.data_classes.interval_tier import IntervalTier
    from praatio.utilities.constants import Interval
    ents = [Interval(sc.f(s), sc.f(e), lab) for s, e, lab in t["entries"]]
    return IntervalTier(t["name"], ents, sc.f(t["min"]), sc.f(t["max"]))


def mk_ptier(t, sc):
    from praatio.data_classes.point_tier import PointTier
    from praatio.utilities.constants import Point
    ents = [Point(sc.f(x), lab) for x, lab in t["entries"]]
    return PointTier(t["name"], ents, sc.f(t["min"]), sc.f(t["max"]))


def mk_tier(t, sc):
    return mk_itier(t, sc) if t["kind"] == "I" else mk_ptier(t, sc)


def tk(x, sc):
    n, ok = sc.tick(x)
    if not ok:
        raise OffGrid("%r is not on grid %s" % (x, sc.json()))
    return n


def snap_tier(tier, sc):
    """Implementation tier -> canonical dict in ticks."""
    from praatio.data_classes.interval_tier import IntervalTier
    if isinstance(tier, IntervalTier):
        ents = [[tk(e[0], sc), tk(e[1], sc), e[2]] for e in tier.entries]
        kind = "I"
    else:
        ents = [[tk(e[0], sc), e[1]] for e in tier.entries]
        kind = "P"
    return {"kind": kind, "name": tier.name, "entries": ents,
            "min": tk(tier.minTimestamp, sc), "max": tk(tier.maxTimestamp, sc)}


def raw_tier(tier):
    """Exact (float hex) snapshot used for the non-mutation monitor."""
    return (type(tier).__name__, tier.name,
            tuple(tuple(x.hex() if isinstance(x, float) else x for x in e) for e in tier.entries),
            float(tier.minTimestamp).hex(), float(tier.maxTimestamp).hex())


def run_guarded(fn):
    """Run fn(); return {'ok': value} / {'err': kind} plus whether stdout was written."""
    with captured_stdout() as buf:
        try:
            v = fn()
            r = {"ok": v}
        except OffGrid as e:
            r = {"offgrid": str(e)}
        except Exception as e:  # noqa
            r = {"err": err_kind(e), "exc": "%s: %s" % (type(e).__name__, str(e)[:200])}
    r["printed"] = bool(buf.getvalue())
    return r


# ---------------------------------------------------------------- Coq runs

def workdir(prop):
    d = os.path.join(VERIF, ".work", "%s.%d" % (prop, os.getpid()))
    shutil.rmtree(d, ignore_errors=True)
    os.makedirs(d)
    return d


def ensure_built():
    """make sure the .vo files exist and are current (normally a no-op after setup)."""
    import fcntl
    lock = os.path.join(VERIF, ".work", "build.lock")
    os.makedirs(os.path.dirname(lock), exist_ok=True)
    with open(lock, "w") as lf:
        fcntl.flock(lf, fcntl.LOCK_EX)
        if not os.path.exists(os.path.join(COQ, "Makefile")):
            subprocess.run(["coq_makefile", "-f", "_CoqProject", "-o", "Makefile"] +
                           sorted(_all_v()), cwd=COQ, check=True, stdout=subprocess.DEVNULL)
        p = subprocess.run(["timeout", "3000", "make", "-j16"], cwd=COQ,
                           stdout=subprocess.PIPE, stderr=subprocess.STDOUT, text=True)
        return p.returncode, p.stdout[-3000:]


def _all_v():
    out = []
    for root, _, files in os.walk(THEORIES):
        for f in files:
            if f.endswith(".v"):
                out.append(os.path.relpath(os.path.join(root, f), COQ))
    return out


_NATLIST = re.compile(r"=\s*(\[[^\]]*\]|nil)")


def _parse_natlists(out):
    res = []
    for m in _NATLIST.finditer(out):
        body = m.group(1)
        if body == "nil":
            res.append([])
        else:
            res.append([int(x) for x in re.findall(r"\d+", body)])
    return res


def _unlimited_stack():
    # the parser of large list literals recurses per element: let coqc use as much stack as the system allows
    import resource
    try:
        soft, hard = resource.getrlimit(resource.RLIMIT_STACK)
        resource.setrlimit(resource.RLIMIT_STACK, (hard, hard))
    except Exception:  # noqa
        pass


def coq_eval_file(path, timeout=600):
    p = subprocess.run(["timeout", str(timeout), "coqc"] + COQ_ARGS + [path], preexec_fn=_unlimited_stack,
                       stdout=subprocess.PIPE, stderr=subprocess.STDOUT, text=True)
    return p.returncode, p.stdout


def coq_eval_cases(wd, module, case_type, terms, funs, shard=400, jobs=12, tag="cases"):
    """Evaluate boolean functions `funs` (Coq names, each case_type -> bool) on
    the case terms inside Coq.  Returns {fun: [failing global indices]} and the
    list of shards whose evaluation itself failed (coqc error)."""
    files = []
    for k in range(0, len(terms), shard):
        chunk = terms[k:k + shard]
        path = os.path.join(wd, "%s_%d.v" % (tag, k // shard))
        with open(path, "w") as fh:
            fh.write("From PraatIO Require Import %s.\nOpen Scope Z_scope.\n" % module)
            fh.write("Definition cases : list %s := [\n" % case_type)
            fh.write(";\n".join(chunk))
            fh.write("\n].\n")
            for f in funs:
                fh.write("Eval vm_compute in (fails %s cases).\n" % f)
        files.append((k, path))
    fails = {f: [] for f in funs}
    broken = []

    def one(item):
        k, path = item
        rc, out = coq_eval_file(path)
        return k, path, rc, out

    with ThreadPoolExecutor(max_workers=jobs) as ex:
        for k, path, rc, out in ex.map(one, files):
            lists = _parse_natlists(out)
            if rc != 0 or len(lists) != len(funs):
                broken.append({"shard": path, "rc": rc, "out": out[-2000:]})
                continue
            for f, lst in zip(funs, lists):
                fails[f].extend(k + i for i in lst)
    return fails, broken


def coq_show(wd, module, expr, tag="show"):
    """Evaluate an arbitrary expression in Coq and return the printed text."""
    path = os.path.join(wd, "%s.v" % tag)
    with open(path, "w") as fh:
        fh.write("From PraatIO Require Import %s.\nOpen Scope Z_scope.\n" % module)
        fh.write("Eval vm_compute in (%s).\n" % expr)
    rc, out = coq_eval_file(path, timeout=120)
    return out.strip()[-4000:]


# ---------------------------------------------------------------- proofs

FORBIDDEN = re.compile(r"\b(Admitted|admit|Axiom|Axioms|Parameter|Parameters|Conjecture|Hypothesis|Variable|"
                       r"Unset\s+Guard|bypass_check|Admit\s+Obligations|type-in-type|impredicative-set)\b")


def forbidden_scan():
    """grep gate over the whole development (Hypothesis/Variable are allowed
    inside Sections only; we use `Context` there, so any hit is reported)."""
    hits = []
    for rel in _all_v():
        with open(os.path.join(COQ, rel)) as fh:
            txt = fh.read()
        txt = re.sub(r"\(\*.*?\*\)", "", txt, flags=re.S)
        in_section = 0
        for ln, line in enumerate(txt.split("\n"), 1):
            if re.match(r"\s*Section\b", line):
                in_section += 1
            if re.match(r"\s*End\b", line) and in_section:
                in_section -= 1
            m = FORBIDDEN.search(line)
            if m:
                if m.group(1) in ("Hypothesis", "Variable") and in_section:
                    continue
                hits.append("%s:%d: %s" % (rel, ln, line.strip()[:120]))
    return hits


def recheck_props(prop, wd):
    """Re-compile theories/Props/<prop>.v against the built tree; count theorems,
    collect Print Assumptions output."""
    src = os.path.join(THEORIES, "Props", "%s.v" % prop)
    with open(src) as fh:
        txt = fh.read()
    theorems = re.findall(r"^\s*Theorem\s+(\w+)", txt, flags=re.M)
    os.makedirs(os.path.join(wd, "props"), exist_ok=True)
    dst = os.path.join(wd, "props", "%s.v" % prop)
    shutil.copy(src, dst)
    t0 = time.time()
    p = subprocess.run(["timeout", "900", "coqc"] + COQ_ARGS + [dst],
                       stdout=subprocess.PIPE, stderr=subprocess.STDOUT, text=True)
    out = p.stdout
    # Print Assumptions blocks: either "Closed under the global context" or "Axioms:\n name : type ..."
    axioms = sorted(set(re.findall(r"^([A-Za-z_][\w.']*)\s*:", out, flags=re.M)))
    closed = out.count("Closed under the global context")
    return {"ok": p.returncode == 0, "theorems": theorems, "closed": closed,
            "axioms": axioms, "wall_s": round(time.time() - t0, 2),
            "log": out[-3000:] if p.returncode != 0 else ""}


# ---------------------------------------------------------------- regenerated source facts

FACT_GROUPS = {"FactsIO": ["C01", "C02", "C03", "C04"],
               "FactsOptions": ["C05", "C06", "C07", "C08", "C09", "C10", "C11", "C12", "C13", "C14", "C15"],
               "FactsAudio": ["C16", "C17", "C18"],
               "FactsKlatt": ["C19"],
               "FactsScripts": ["C18"]}


def source_facts(prop, wd):
    """Regenerate SourceFacts.v from REPO (tools/source_facts.py) and re-prove the facts
    lemmas of the group this property's models depend on."""
    groups = [g for g, ps in FACT_GROUPS.items() if prop in ps]
    if not groups:
        return {"ok": True, "lemmas": 0, "log": "", "group": None}
    group = "+".join(groups)
    gd = os.path.join(wd, "gen")
    os.makedirs(gd, exist_ok=True)
    p = subprocess.run([sys.executable, os.path.join(VERIF, "tools", "source_facts.py"), REPO, os.path.join(gd, "SourceFacts.v")],
                       stdout=subprocess.PIPE, stderr=subprocess.STDOUT, text=True)
    if p.returncode != 0:
        return {"ok": False, "lemmas": 0, "group": group, "log": "translator failed (a literal the models depend on is gone): " + p.stdout[-600:]}
    nlem = 0
    for g in groups:
        src = os.path.join(COQ, "facts", g + ".v")
        with open(src) as fh:
            nlem += len(re.findall(r"^Lemma\s", fh.read(), flags=re.M))
        shutil.copy(src, os.path.join(gd, g + ".v"))
    args = ["timeout", "300", "coqc"] + COQ_ARGS + ["-Q", gd, "PraatIOGen"]
    for f in ["SourceFacts.v"] + [g + ".v" for g in groups]:
        p = subprocess.run(args + [os.path.join(gd, f)], stdout=subprocess.PIPE, stderr=subprocess.STDOUT, text=True)
        if p.returncode != 0:
            return {"ok": False, "lemmas": nlem, "group": group, "log": "%s no longer checks: %s" % (f, p.stdout[-800:])}
    return {"ok": True, "lemmas": nlem, "group": group, "log": ""}


# ---------------------------------------------------------------- the same cases in another process environment

ENV_OTHER = {"LC_ALL": "C", "LANG": "C", "LANGUAGE": "C", "PYTHONUTF8": "0", "PYTHONCOERCECLOCALE": "0", "VERIF_BARE": "1",
             "PYTHONWARNINGS": "error::DeprecationWarning,error::FutureWarning,error::PendingDeprecationWarning"}


def fname(path):
    """the path a harness module hands to the library.  In the second process (VERIF_BARE) it is a bare file name
    relative to the working directory, as a user working inside the folder would give it."""
    if os.environ.get("VERIF_BARE") and os.path.isdir(os.path.dirname(path)):
        os.chdir(os.path.dirname(path))
        return os.path.basename(path)
    return path


def env_pass(prop, wd, cases, results, limit):
    """run a spread of the cases again under ENV_OTHER with python -O (harness/envpass.py); returns (ran, [(index, got)])"""
    from . import envpass
    n = len(cases)
    if n == 0:
        return 0, [], {}
    # the largest inputs first (size-gated code is where per-item recursion and shortcuts live), then an even spread
    sizes = sorted(range(n), key=lambda i: -len(json.dumps(cases[i], default=str)))
    big = sizes[:max(10, limit // 6)]
    step = max(1, n // (limit - len(big)))
    idx = sorted(set(big) | set(list(range(0, n, step))[:limit - len(big)]))
    out = os.path.join(wd, "envpass.out.json")
    job = {"prop": prop, "cases": [cases[i] for i in idx],
           "results": [envpass.norm(json.loads(json.dumps(results[i], default=str))) for i in idx], "out": out}
    jf = os.path.join(wd, "envpass.job.json")
    with open(jf, "w", encoding="utf-8") as fh:
        json.dump(job, fh)
    env = dict(os.environ, **ENV_OTHER)
    p = subprocess.run([sys.executable, "-O", "-m", "harness.envpass", jf], cwd=VERIF, env=env,
                       stdout=subprocess.PIPE, stderr=subprocess.STDOUT, text=True, timeout=3600)
    if p.returncode != 0 or not os.path.exists(out):
        return 0, [(idx[0], {"raised": "the second process failed: " + p.stdout[-600:]})], {}
    with open(out, encoding="utf-8") as fh:
        res = json.load(fh)
    return res["ran"], [(idx[d["k"]], d["got"]) for d in res["diffs"]], {"debug": res["debug"], "encoding": res["encoding"]}


# ---------------------------------------------------------------- findings

def load_findings(prop):
    path = os.path.join(VERIF, "known_findings.json")
    if not os.path.exists(path):
        return []
    with open(path) as fh:
        data = json.load(fh)
    return [f for f in data.get("findings", []) if f["property"] == prop and f.get("status") == "known"]


# ---------------------------------------------------------------- evidence

def write_json(path, obj):
    os.makedirs(os.path.dirname(path), exist_ok=True)
    tmp = path + ".tmp.%d" % os.getpid()
    with open(tmp, "w") as fh:
        json.dump(obj, fh, indent=1, sort_keys=True, default=str)
    os.replace(tmp, path)


def case_key(obj):
    return hashlib.sha1(json.dumps(obj, sort_keys=True, default=str).encode()).hexdigest()


TRUSTED_BASE_COMMON = [
    "Coq 8.16.1 kernel and its vm_compute evaluator (no native_compute)",
    "Python harness in /verif/harness: generators, tick<->float conversion, canonicalisation, known-findings matcher",
    "hand-written Gallina models tied to /repo by the correspondence check of this run (differential, not a proof)",
    "CPython runtime semantics used by praatIO and mirrored in the models: list.sort on tuples, str.strip/isspace, min/max, float arithmetic exact on the dyadic grid",
]
