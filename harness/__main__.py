import importlib
import sys
from . import runner

if __name__ == "__main__":
    pid = sys.argv[1]
    mod = importlib.import_module("harness.props.%s" % pid.lower())
    sys.exit(runner.main(mod, sys.argv[2:]))
