#!/usr/bin/env python3
"""Confirm a seeded change and run a check against it.

usage: seedtest.py confirm <dir>              # dir has patch.diff, demo.py
       seedtest.py check <dir> <Cnn> [tier]   # run ./check Cnn against a scratch worktree with the patch
       seedtest.py all <root> [tier]          # for every /verif/seeded/<id>/: run its property's check

The change is applied to a scratch git worktree of /repo (never to /repo
itself); the check is pointed at it through VERIF_REPO.  The worktree is removed
afterwards."""
import json
import os
import shutil
import subprocess
import sys
import tempfile
from concurrent.futures import ThreadPoolExecutor

VERIF = os.path.dirname(os.path.dirname(os.path.abspath(__file__)))
PY = "/venv/bin/python"


def sh(cmd, **kw):
    return subprocess.run(cmd, stdout=subprocess.PIPE, stderr=subprocess.STDOUT, text=True, **kw)


def mk_worktree():
    d = tempfile.mkdtemp(prefix="seedwt.", dir="/tmp")
    os.rmdir(d)
    p = sh(["git", "-C", "/repo", "worktree", "add", "--detach", d, "HEAD"])
    if p.returncode != 0:
        raise RuntimeError(p.stdout)
    return d


def rm_worktree(d):
    sh(["git", "-C", "/repo", "worktree", "remove", "--force", d])
    shutil.rmtree(d, ignore_errors=True)


def confirm(mdir):
    mdir = os.path.abspath(mdir)
    wt = mk_worktree()
    try:
        res = {}
        env = dict(os.environ, PYTHONPATH=wt, PYTHONHASHSEED="0")
        p = sh([PY, os.path.join(mdir, "demo.py")], env=env, cwd="/tmp")
        res["demo_clean_rc"] = p.returncode
        p = sh(["git", "-C", wt, "apply", os.path.abspath(os.path.join(mdir, "patch.diff"))])
        res["apply_rc"] = p.returncode
        if p.returncode != 0:
            res["apply_out"] = p.stdout[-500:]
            return res
        p = sh([PY, "-m", "pytest", "-q", "-p", "no:cacheprovider", "-x"], cwd=wt, env=dict(os.environ, PYTHONHASHSEED="0"))
        res["tests_rc"] = p.returncode
        res["tests_tail"] = p.stdout.strip().split("\n")[-1]
        p = sh([PY, os.path.join(mdir, "demo.py")], env=env, cwd="/tmp")
        res["demo_patched_rc"] = p.returncode
        res["demo_patched_out"] = p.stdout[-600:]
        res["confirmed"] = (res["demo_clean_rc"] == 0 and res["tests_rc"] == 0 and res["demo_patched_rc"] != 0)
        return res
    finally:
        rm_worktree(wt)


def check(mdir, prop, tier="quick"):
    mdir = os.path.abspath(mdir)
    wt = mk_worktree()
    try:
        p = sh(["git", "-C", wt, "apply", os.path.abspath(os.path.join(mdir, "patch.diff"))])
        if p.returncode != 0:
            return {"apply_rc": p.returncode, "out": p.stdout[-500:]}
        env = dict(os.environ, VERIF_REPO=wt, VERIF_EVIDENCE_DIR=os.path.join(wt, ".evidence"), VERIF_REPLAY_DIR=os.path.join(wt, ".replays"))
        seeds = [x for x in os.environ.get("SEED_LIST", "").split(",") if x]
        if seeds:
            # robustness of a catch: the same check under other generator seeds
            caught = {}
            for sd in seeds:
                p = sh([os.path.join(VERIF, "check"), prop, "--tier", tier], env=dict(env, VERIF_SEED=sd), cwd=VERIF)
                caught[sd] = p.returncode
            return {"rc": 1 if all(v == 1 for v in caught.values()) else 0, "lines": [], "tail": json.dumps(caught), "why": json.dumps(caught)}
        p = sh([os.path.join(VERIF, "check"), prop, "--tier", tier], env=env, cwd=VERIF)
        lines = [l for l in p.stdout.split("\n") if l.startswith("VIOLATION") or l.startswith("KNOWN-FINDING")]
        why = None
        for l in lines:
            if l.startswith("VIOLATION") and "replay=" in l:
                path = l.split("replay=")[1].split()[0]
                try:
                    why = json.load(open(path)).get("why")
                except Exception:  # noqa
                    pass
                break
        return {"rc": p.returncode, "lines": lines, "tail": p.stdout.strip().split("\n")[-1][:300], "why": (why or "")[:400]}
    finally:
        rm_worktree(wt)


def main():
    cmd = sys.argv[1]
    if cmd == "confirm":
        print(json.dumps(confirm(sys.argv[2]), indent=1))
    elif cmd == "check":
        print(json.dumps(check(sys.argv[2], sys.argv[3], sys.argv[4] if len(sys.argv) > 4 else "quick"), indent=1))
    elif cmd == "all":
        root = sys.argv[2]
        tier = sys.argv[3] if len(sys.argv) > 3 else "quick"
        items = []
        for name in sorted(os.listdir(root)):
            d = os.path.join(root, name)
            if os.path.exists(os.path.join(d, "patch.diff")):
                meta = json.load(open(os.path.join(d, "meta.json")))
                items.append((name, d, meta["property"]))
        only = set(sys.argv[4].split(",")) if len(sys.argv) > 4 else None

        def one(it):
            name, d, prop = it
            if only and prop not in only and name not in only:
                return None
            return name, prop, check(d, prop, tier)
        results = {}
        with ThreadPoolExecutor(max_workers=int(os.environ.get("SEED_WORKERS", "3"))) as ex:
            for r in ex.map(one, items):
                if r:
                    name, prop, res = r
                    results[name] = {"property": prop, "check_rc": res.get("rc"), "caught": res.get("rc") == 1,
                                     "first_lines": res.get("lines", [])[:2], "why": res.get("why", ""), "tail": res.get("tail", "")}
                    print("%-14s %s rc=%s %s | %s" % (name, prop, res.get("rc"), "; ".join(l[:90] for l in res.get("lines", [])[:2]), res.get("why", "")[:160]))
                    sys.stdout.flush()
        out = os.environ.get("SEED_RESULTS")
        if out:
            with open(out, "w") as fh:
                json.dump(results, fh, indent=1, sort_keys=True)


if __name__ == "__main__":
    main()
