#!/usr/bin/env python3
"""Regenerates SourceFacts.v from /repo's current source (Python ast, fail-closed).

The hand-written models hard-wire a few literals of the source: the regular
expressions and sniffing substrings of the TextGrid readers, the quote-doubling
pair, struct codes per sample width, option tables, class-name strings, the
container-tier name lists of the KlattGrid reader.  This translator extracts
those literals from today's source; coq/theories/Facts/FactsCheck.v proves by
reflexivity that they are the ones the models were written for.  A changed
literal therefore breaks a proof obligation.

usage: source_facts.py <repo> <out.v>
Anything unexpected (a function that is gone, a literal that is no longer a
literal) raises: the obligation then counts as not discharged."""
import ast
import os
import sys


class Missing(Exception):
    pass


def parse(repo, rel):
    with open(os.path.join(repo, rel), encoding="utf-8") as fh:
        return ast.parse(fh.read(), rel)


def func(tree, name):
    for node in ast.walk(tree):
        if isinstance(node, (ast.FunctionDef,)) and node.name == name:
            return node
    raise Missing("function %s" % name)


def klass(tree, name):
    for node in ast.walk(tree):
        if isinstance(node, ast.ClassDef) and node.name == name:
            return node
    raise Missing("class %s" % name)


def str_consts(node):
    return [n.value for n in ast.walk(node) if isinstance(n, ast.Constant) and isinstance(n.value, str)]


def call_args(node, attr_or_name):
    """all calls f(...) / x.f(...) inside node, in source order"""
    out = []
    for n in ast.walk(node):
        if isinstance(n, ast.Call):
            f = n.func
            nm = f.attr if isinstance(f, ast.Attribute) else f.id if isinstance(f, ast.Name) else None
            if nm == attr_or_name:
                out.append(n)
    out.sort(key=lambda c: (c.lineno, c.col_offset))
    return out


def const(n):
    if isinstance(n, ast.Constant):
        return n.value
    if isinstance(n, ast.UnaryOp) and isinstance(n.op, ast.USub) and isinstance(n.operand, ast.Constant):
        return -n.operand.value
    raise Missing("literal expected at line %d" % getattr(n, "lineno", -1))


def module_assign(tree, name):
    for node in tree.body:
        targets = []
        if isinstance(node, ast.Assign):
            targets = node.targets
            value = node.value
        elif isinstance(node, ast.AnnAssign):
            targets = [node.target]
            value = node.value
        for t in targets:
            if isinstance(t, ast.Name) and t.id == name:
                return value
    raise Missing("module constant %s" % name)


def class_consts(cls):
    out = []
    for node in cls.body:
        if isinstance(node, ast.Assign) and isinstance(node.value, ast.Constant):
            out.append((node.targets[0].id, node.value.value))
        elif isinstance(node, ast.AnnAssign) and isinstance(node.value, ast.Constant):
            out.append((node.target.id, node.value.value))
    return out


def cstr(s):
    s = s.replace("\n", "\\n").replace("\t", "\\t")        # control characters are spelled out
    if any(ord(c) > 126 or ord(c) < 32 for c in s):
        raise Missing("non-printable literal %r" % s)
    return '"' + s.replace('"', '""') + '"'


def clist(items):
    return "[" + "; ".join(items) + "]"


def extract(repo):
    facts = []       # (name, coq type, coq term)
    tio = parse(repo, "praatio/utilities/textgrid_io.py")
    # regular expressions of the long-form reader, in source order
    pn = func(tio, "_parseNormalTextgrid")
    pats = []
    for c in call_args(pn, "split") + call_args(pn, "reSearch") + call_args(pn, "search") + call_args(pn, "sub"):
        if c.args and isinstance(c.args[0], ast.Constant) and isinstance(c.args[0].value, str):
            pats.append((c.lineno, c.col_offset, c.args[0].value))
    pats.sort()
    facts.append(("long_reader_patterns", "list string", clist([cstr(p[2]) for p in pats])))
    facts.append(("long_reader_class_probe", "list string",
                  clist([cstr(s) for s in str_consts(pn) if "class" in s])))
    pts = func(tio, "parseTextgridStr")
    facts.append(("sniff_substrings", "list string", clist([cstr(s) for s in str_consts(pts) if s in ("ooTextFile short", "item [", "start")])))
    ps = func(tio, "_parseShortTextgrid")
    fa = call_args(ps, "findAll")
    facts.append(("short_reader_keywords", "list string", clist([cstr(const(c.args[1])) for c in fa])))
    ftr = func(tio, "_fetchTextRow")
    rep = [c for c in call_args(ftr, "replace")]
    facts.append(("short_reader_unescape", "list string", clist([cstr(const(a)) for c in rep for a in c.args])))
    rub = func(tio, "_removeBlanks")
    facts.append(("remove_blanks_label", "list string", clist([cstr(s) for s in str_consts(rub) if s != "entries"])))
    # writers: the literal pieces of the two text forms
    for fn, nm in (("_tgToShortTextForm", "short_writer_literals"), ("_tgToLongTextForm", "long_writer_literals")):
        f = func(tio, fn)
        lits = [(n.lineno, n.col_offset, n.value) for n in ast.walk(f) if isinstance(n, ast.Constant) and isinstance(n.value, str)
                and not (n.value in ("tiers", "class", "name", "xmin", "xmax", "entries"))]
        lits.sort()
        facts.append((nm, "list string", clist([cstr(x[2]) for x in lits])))
    ut = parse(repo, "praatio/utilities/utils.py")
    eq = func(ut, "escapeQuotes")
    facts.append(("escape_quotes_pair", "list string", clist([cstr(const(a)) for c in call_args(eq, "replace") for a in c.args])))
    mm = parse(repo, "praatio/utilities/my_math.py")
    isc = func(mm, "isclose")
    defaults = [const(d) for d in isc.args.defaults]
    facts.append(("isclose_defaults", "list string", clist([cstr(repr(d)) for d in defaults])))
    nts = func(mm, "numToStr")
    facts.append(("num_to_str_formats", "list string", clist([cstr(s) for s in str_consts(nts)])))
    cs = parse(repo, "praatio/utilities/constants.py")
    facts.append(("tier_class_names", "list string", clist([cstr(const(module_assign(cs, "INTERVAL_TIER"))), cstr(const(module_assign(cs, "POINT_TIER")))])))
    facts.append(("min_interval_length", "string", cstr(repr(const(module_assign(cs, "MIN_INTERVAL_LENGTH"))))))
    for cname in ("TextgridFormats", "CropCollision", "ErrorReportingMode", "EraseCollision", "WhitespaceCollision", "IntervalCollision",
                  "DuplicateNames", "DataPointTypes"):
        cl = klass(cs, cname)
        facts.append(("options_" + cname, "list string", clist([cstr(str(v)) for _k, v in class_consts(cl)])))
    au = parse(repo, "praatio/audio.py")
    swd = module_assign(au, "sampleWidthDict")
    if not isinstance(swd, ast.Dict):
        raise Missing("sampleWidthDict literal")
    facts.append(("sample_width_codes", "list (nat * string)",
                  clist(["(%d, %s)" % (const(k), cstr(const(v))) for k, v in zip(swd.keys, swd.values)])))
    facts.append(("zero_crossing_timestep", "string", cstr(repr(const(module_assign(au, "ZERO_CROSSING_TIMESTEP"))))))
    gi = func(klass(au, "Wav"), "_getIndexAtTime")
    facts.append(("index_at_time_expr", "string", cstr(ast.unparse(gi.body[-1]))))
    rf = func(au, "readFramesAtTime")
    facts.append(("read_frames_exprs", "list string", clist([cstr(ast.unparse(s)) for s in rf.body[-5:]])))
    fz = func(au, "_findNextZeroCrossing")
    facts.append(("zero_crossing_time_expr", "string", cstr(ast.unparse(fz.body[-1]))))
    kg = parse(repo, "praatio/klattgrid.py")
    ok = func(kg, "_openNormalKlattgrid")
    lists = [n for n in ast.walk(ok) if isinstance(n, ast.List) and n.elts and all(isinstance(e, ast.Constant) for e in n.elts)]
    facts.append(("klatt_container_tiers", "list string", clist([cstr(e.value) for e in lists[0].elts]) if lists else "[]"))
    pc = func(kg, "_proccessContainerTierInput")
    lists = [n for n in ast.walk(pc) if isinstance(n, ast.List) and n.elts and all(isinstance(e, ast.Constant) and isinstance(e.value, str) for e in n.elts)]
    facts.append(("klatt_sub_filters", "list string", clist([cstr(e.value) for e in lists[0].elts]) if lists else "[]"))
    tg = parse(repo, "praatio/textgrid.py")
    ot = func(tg, "openTextgrid")
    encs = [const(k.value) for c in call_args(ot, "open") for k in c.keywords if k.arg == "encoding"]
    facts.append(("open_textgrid_encodings", "list string", clist([cstr(e) for e in encs])))
    # the scripts the textgrid-level models follow statement by statement (docstrings left out)
    sc = parse(repo, "praatio/praatio_scripts.py")

    def stmts(f):
        body = f.body[1:] if f.body and isinstance(f.body[0], ast.Expr) and isinstance(f.body[0].value, ast.Constant) else f.body
        return clist([cstr(ast.unparse(b).replace("'", "`")) for b in body])
    for fn, nm in (("_shiftTimes", "shift_times_stmts"), ("audioSplice", "audio_splice_stmts"),
                   ("tgBoundariesToZeroCrossings", "tg_zero_crossings_stmts")):
        facts.append((nm, "list string", stmts(func(sc, fn))))
    return facts


def main():
    repo, out = sys.argv[1], sys.argv[2]
    facts = extract(repo)
    lines = ["(* GENERATED by tools/source_facts.py from %s -- do not edit *)" % repo,
             "From Coq Require Import String List.", "Import ListNotations.", "Open Scope string_scope.", ""]
    for name, ty, term in facts:
        lines.append("Definition %s : %s := %s." % (name, ty, term))
    with open(out, "w") as fh:
        fh.write("\n".join(lines) + "\n")
    print("%d facts written to %s" % (len(facts), out))


if __name__ == "__main__":
    main()
