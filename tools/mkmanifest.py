#!/usr/bin/env python3
"""Regenerates /verif/MANIFEST.json from the table below (kept in one place so
that the manifest is always schema-valid)."""
import json
import os

VERIF = os.path.dirname(os.path.dirname(os.path.abspath(__file__)))

TB = ("Trusted: Coq 8.16.1 kernel + vm_compute; the hand-written Gallina model (tied to /repo by this run's "
      "differential correspondence, evaluated inside Coq, and by the facts lemmas over the regenerated SourceFacts.v); the Python harness (generators, tick<->float "
      "conversion, canonicalisation); CPython semantics mirrored in the model.  Axioms per theorem are those "
      "printed by Print Assumptions, copied into the evidence file on every run.")

CLAIMED = {
    "C06": {
        "text": "Proof: Props/C06.v (13 theorems, closed under the global context) shows for all well-formed tiers of any size, "
                "all windows, all modes and both rebase settings that the model of crop equals the filter/map/clip "
                "specification read off the property, with span, rebasing, totality (empty windows) and rejection of "
                "degenerate windows.  The model is tied to /repo on every run by evaluating, inside Coq, model = "
                "implementation output and specification = implementation output on exhaustive small scopes and random "
                "tiers (dyadic and decimal grids); Textgrid.crop is compared tier by tier.",
        "note": TB + "  Binary64 rounding on non-dyadic inputs is sampled (decimal grid), not proved.",
        "technique": "Coq proof of model = spec (induction over entry list, case analysis over comparisons) + in-Coq differential correspondence",
        "design_ref": "5/C06",
    },
}

def _c(text, technique, ref, note_extra=""):
    return {"text": text, "note": TB + ("  " + note_extra if note_extra else ""), "technique": technique, "design_ref": ref}


CLAIMED.update({
    "C07": _c("Proof: Props/C07.v shows for all wf tiers and proper in-span regions that eraseRegion is total with an explicit result, "
              "its label function without shrinking (blank inside, unchanged outside) and with shrinking (everything after b earlier "
              "by exactly b-a), exact membership of entries before/after the region, the one-interval straddler, categorical and "
              "error modes and the rejection of degenerate regions.  Implementation output is compared with model and with a "
              "clause-by-clause oracle inside Coq; the 'never fails because of rounding' clause is decided by evaluation on decimal grids.",
              "Coq proof (monotone-image lemma, per-entry label-function lemmas, induction) + in-Coq differential correspondence and oracle",
              "5/C07", "The model is the single-pass form of the delete/re-insert code; its equality with the code is checked differentially only."),
    "C08": _c("Proof: Props/C08.v shows totality and the explicit result of insertSpace on all wf tiers, the entry-level clauses for "
              "each collision mode, the label function before and after the gap, and that eraseRegion(s,s+d,truncate,shrink) "
              "restores span and label-at-every-time (stretch/split).  Single calls and the composition are compared with model "
              "and oracle inside Coq on dyadic and decimal grids.",
              "Coq proof + in-Coq differential correspondence and oracle", "5/C08"),
    "C09": _c("Proof: Props/C09.v shows for all wf tiers that editTimestamps yields shift+drop+clip entries, is total (empty tiers "
              "included), raises iff an entry leaves the old span in error mode, never shrinks the span, round-trips when nothing is "
              "clipped, and appendTier's explicit result; Textgrid.editTimestamps acts tier-wise, appendTextgrid returns exactly the "
              "documented tiers in the documented order, with unique names, each being A's tier, or B's tier re-spanned and moved by "
              "A's duration, joined to A's entries of that name.  Implementation output and the printed/not-printed warning are "
              "compared inside Coq, the textgrid-level operations as whole textgrids against their models.",
              "Coq proof + in-Coq differential correspondence and oracle", "5/C09"),
    "C10": _c("Proof: Props/C10.v shows for all wf operands that difference is labelled exactly where A is and B is not, intersection "
              "has one clipped a-b entry per overlapping pair and is labelled exactly where both are, union is total, well-formed and "
              "labelled exactly where either is, that difference and intersection partition A's labelled time, mergeLabels' explicit "
              "result, and for point tiers that union holds exactly the union of the time points with the labels of coinciding "
              "points joined a-b (operands with distinct times).  Union label order and Textgrid.mergeTiers are decided by "
              "evaluation against an independent sweep specification and the mergeTiers model.",
              "Coq proof (fold invariants over insert/erase/crop models) + in-Coq differential correspondence and oracle", "5/C10",
              "partial: the label-order clause of interval union is evaluated (and follows from C11's merge clause per step), not proved as one statement."),
    "C11": _c("Proof: Props/C11.v shows that the model of IntervalTier.insertEntry (lax crop, delete matches, append, sort, span "
              "update) equals the collision-policy specification for every wf tier, entry and mode, that order, disjointness and the "
              "just-enough span are re-established, the delete clauses, and the same policy for PointTier.insertEntry (no point at "
              "that time: added, nothing else changes; error / replace / merge old-new on a point at the same time; order and "
              "just-enough span afterwards).  Single steps (exhaustive small scope) and histories of "
              "up to 12 inserts/deletes are compared state by state with model and specification inside Coq.",
              "Coq proof (sorted-permutation uniqueness, membership/disjointness) + in-Coq differential correspondence on histories", "5/C11"),
})

CLAIMED.update({
    "C05": _c("Proof: Props/C05.v shows that the constructors return only well-formed tiers (arbitrary entry lists), that each of the "
              "16 interval-tier and 12 point-tier operations maps a well-formed tier to a well-formed tier or an error, hence by "
              "induction over the history that every reachable tier is well-formed, and that validate() is True on well-formed "
              "tiers.  Random histories (<=12 steps, adaptive arguments) are run on the implementation; after every step the tier's "
              "well-formedness (on an order-isomorphic encoding of its float state), its validate() and, on dyadic grids, its "
              "equality with the model's state are evaluated inside Coq.",
              "Coq proof (invariant, induction over operation histories) + in-Coq differential correspondence on histories", "5/C05"),
    "C14": _c("Proof: Props/C14.v shows for all inputs: reference timestamps strictly increasing; nearest-reference choice (closest, "
              "earlier on ties); a time moves iff within maxDifference (inclusive); adjusted times never cross; dejitter keeps count, "
              "order and labels and returns only well-formed tiers; morph keeps labels, gives selected intervals the target's "
              "durations, keeps gaps, first start and trailing gap, and rejects unequal counts.  Implementation output is compared with "
              "model and an independently written specification inside Coq; alignBoundariesAcrossTiers tier by tier.",
              "Coq proof (scan invariant for the first minimiser, exchange argument for monotonicity, list induction) + in-Coq differential correspondence", "5/C14"),
})

CLAIMED.update({
    "C12": _c("Proof: Props/C12.v shows that every successful addTier/removeTier/renameTier/replaceTier leaves the tier list the plain "
              "ordered-list model prescribes (Python list.insert index semantics included), that names stay unique and the invariant "
              "holds along every history, that duplicates are rejected, that the span only widens, and that Textgrid.crop acts "
              "tier-wise with all tiers sharing the textgrid's span for strict/truncated; that eraseRegion, insertSpace and "
              "editTimestamps act tier-wise with the same names in the same order, that eraseRegion (region inside the span) and "
              "insertSpace return valid textgrids (every tier well-formed with exactly the new span) on which validate() is True, "
              "and the shape of mergeTiers' result.  Mutator histories (exhaustive to depth 2/3 over a small universe plus random "
              "ones) are replayed on real Textgrid objects and compared after every call with the model and the list model inside "
              "Coq; the textgrid-level edits are compared as whole textgrids with their models inside Coq and validate() is "
              "evaluated on every result.",
              "Coq proof (refinement to a list model, invariant by induction over histories, span rules of the tier operations) + in-Coq differential correspondence on histories", "5/C12",
              "the union inside mergeTiers is C10's; its label order is evaluated, not proved."),
    "C13": _c("Proof (partial): Props/C13.v shows that the Textgrid mutators are all-or-nothing on every state satisfying the "
              "invariant, including replaceTier's rollback, for a model that follows the source's order of checks and writes; "
              "implementation state after failing calls is compared inside Coq.  The clauses 'copy-returning operations leave "
              "receiver and arguments unchanged' and 'a failing save leaves the file untouched' concern Python object identity, "
              "aliasing and the file system, which no functional model exhibits: they are decided by monitoring the real objects "
              "(bit-exact snapshots before/after every call on success and exception paths) and real files.",
              "Coq proof of atomicity on a step-machine model + runtime monitoring of the real objects (evaluation)", "5/C13",
              "partial: the non-mutation and file clauses are monitored (evaluation), not proved; runtime aliasing is outside the model."),
})

CLAIMED.update({
    "C15": _c("Proof: Props/C15.v shows the find clauses (exact and substring), that getNonEntries yields positive-length intervals "
              "which together with the entries tile [0,maxTimestamp], that timestamps is a strictly sorted set, the "
              "getValuesInIntervals filter, exact getValueAtTime on sorted data, fuzzy getValueAtTime on a strictly time-sorted series "
              "(the row returned is a row of the series, none is nearer to the target, the earlier one on a tie; IndexError iff no "
              "sample is left), fuzzy getValuesAtPoints (for time-ordered points every returned row is nearest over the WHOLE "
              "series: handing the stop index on as the next start index loses nothing), intervalOverlapCheck with default, time and percent "
              "thresholds, and that validate() is True exactly on sorted, positive, non-overlapping, in-span lists.  Implementation "
              "results are compared with the models and with definitions written from the property text inside Coq; the complement helper, the binary64 division of the percent threshold, the regex variant of find and the equality clauses are evaluated.",
              "Coq proof (list induction, boolean/arith reasoning) + in-Coq differential correspondence and oracle", "5/C15",
              "partial: invertIntervalList (proved under C17), the binary64 side of percent thresholds, regex find and == are evaluated, not proved."),
})

CLAIMED.update({
    "C04": _c("Proof: Props/C04.v shows, for the model of _fillInBlanks/_removeUltrashortIntervals/_prepTgForSaving and every "
              "well-formed interval tier of any size: blank filling succeeds, yields an ascending gap-free overlap-free partition of "
              "exactly the requested span, keeps every entry and adds only empty-labelled intervals; sliver absorption on a partition "
              "yields a partition of the same span with no interval below the threshold and with exactly the labels of the intervals "
              "at least that long, in order; an interval whose neighbours are not slivers is written verbatim; threshold None absorbs "
              "nothing and leaves positive lengths; an entry outside a requested span raises; blanks off only sorts.  The prepared "
              "data the implementation writes is compared with the model and with a clause-by-clause oracle inside Coq.",
              "Coq proof (accumulator invariant of the absorption loop, partition lemmas, sortedness => sort is identity) + in-Coq differential correspondence and oracle",
              "5/C04", "F19 (every interval below the threshold: tier written without intervals) was exhibited by this check and repaired (0dc43c3); the partition theorem now has no side condition on lengths; the pre-repair function is kept for the witness C04_all_short_legacy_refuted."),
})

CLAIMED.update({
    "C01": _c("Proof (text layer): Props/C01.v shows for EVERY label and name (quotes, runs of quotes at the start, middle and end, "
              "newlines, '=', digits) that un-doubling the doubled form is the identity, that doubling commutes with trimming, that the "
              "short-form text-row reader stops exactly at the closing quote and returns the label, that number rows come back as "
              "written, that the entry loops of an interval / point tier block of any length return exactly the written entries, and "
              "that the long-form greedy quoted group is the escaped label; whole files: parsing what the short writer / the long writer "
              "printed returns every tier, name, span and entry (C01_short_file_roundtrip, C01_long_file_roundtrip and their _unconditional "
              "forms: the keyword chunking is proved for names and labels free of the format's keywords, and is a decidable side condition "
              "evaluated on every generated case otherwise; the fields inside a block are located by proof).  The "
              "bit-identity / near-integer clause for times, the fixed-point clause and the JSON formats are decided on the real Textgrid.save / openTextgrid; "
              "written text and parsed dictionary are compared with the writer and reader models inside Coq.",
              "Coq proof (strong induction over quote runs, list induction) + in-Coq differential correspondence of writer and reader models + round trip on the implementation",
              "5/C01", "partial: for names/labels that contain the format's keywords the chunking of a file is a decidable hypothesis evaluated per case; the number layer (repr/float round trip, isclose 1e-14) is evaluated, not proved; numbers are opaque tokens."),
    "C02": _c("Proof: Props/C02.v shows that the specification reader reads EVERY file the short writer or the long writer prints to exactly the "
              "data (C02_spec_reader_short_file / _long_file: any names and labels incl. the formats' own keywords, any number of tiers and "
              "entries; declared sizes = items, nothing left over), that it decodes the string token written for any name or label to exactly "
              "that string (format keywords included), that every quote inside a written string is doubled, and that with blank "
              "filling on the written entries of a well-formed interval tier are an ascending gap-free overlap-free partition of "
              "[xmin,xmax] (with and without the threshold).  Every generated textgrid is written in the four formats by the real "
              "code; the text is compared with the writer model and decoded by the specification reader inside Coq (sizes, nothing "
              "left over, content = prepared in-memory data); a Python twin of that reader and the README JSON schemas give the "
              "numeric partition clause and 'all four formats decode to identical content'.",
              "Coq proof (tokenizer lemma by list induction, partition lemmas) + specification reader evaluated inside Coq on the implementation's output",
              "5/C02", "The reference reader is my reading of Praat's file-format page and defines well-formedness here.  F19 (all intervals below the threshold), found here and in C04, is repaired (0dc43c3)."),
    "C03": _c("Proof: Props/C03.v shows CRLF invariance of both text readers, that blank removal omits exactly the empty-labelled "
              "entries and nothing else, the duplicate-name policy (unique names, one per tier; untouched when already unique; error "
              "mode raises iff a name repeats), that long and short text fields decode every label identically, and that the long-form reader "
              "returns the encoded data for whole files in a family of layouts containing Praat's and ELAN's (C03_long_family_file; keyword "
              "chunking as a decidable side condition evaluated per file).  Files produced by "
              "an independent writer (Praat long, Praat short, ELAN long, both JSON schemas x utf-8, utf-8-sig, utf-16 LE/BE x LF/CRLF, "
              "plain and exponent numbers, -0 starts, empty tiers, duplicates) are opened with the real openTextgrid and compared with "
              "the data they encode; the reader model and the name-policy model are compared with the implementation inside Coq.",
              "Coq proof (list induction) + differential correspondence of the reader models + independent-writer oracle on the implementation",
              "5/C03", "partial: codecs, BOM handling, universal newlines, json.loads and float() are runtime library behaviour (exercised, not modelled); the keyword chunking of a file is a decidable hypothesis evaluated per case; the short layout and the JSON schemas are evaluated."),
})

CLAIMED.update({
    "C16": _c("Proof: Props/C16.v shows, for every width and every value of the range, that samples -> bytes -> samples and bytes -> "
              "samples -> bytes are identities; that every time maps to a byte offset that is a whole number of samples; that insert, "
              "deleteSegment, replaceSegment, concatenate and getSubwav on the byte string -- and every history of them -- are exactly "
              "the same edits on the list of samples (so nothing else moves or changes), the getSamples clause, duration = samples / "
              "rate, and that insert followed by delete of the same stretch is the identity at every time that is not an exact tie "
              "between two samples (the tie case is refuted by a witness and recorded as known finding F20).  Wav.frames after every "
              "edit of random histories is compared with the byte-level model and judged against the list-of-samples specification "
              "inside Coq; .wav files go through the real wave module.",
              "Coq proof (refinement of the byte-level edits to a list-of-samples specification, induction over histories; arithmetic of round-half-even) + in-Coq differential correspondence",
              "5/C16", "save/open/QueryWav file I/O (wave, struct) and binary64 rounding of time*rate are exercised, not modelled; times enter the model as the exact rational value of the float."),
})

CLAIMED.update({
    "C17": _c("Proof: Props/C17.v shows that specifying both lists is rejected, that invertIntervalList returns exactly the gaps of a "
              "well-formed interval list, that the keep/delete marking is the time-ordered interleaving of the given intervals (with "
              "their label) and their gaps (with the other label) and tiles [0,duration], that reading along a tiling with a "
              "replacement generator keeps the original length and every kept sample's position, that without replacement exactly "
              "the kept stretches are returned in order, that a boundary on a sample position maps to that sample, that times beyond "
              "the recording are rejected, and the silence sample count.  _computeKeepDeleteIntervals and readFramesAtTimes (on real "
              ".wav files, also after earlier reads of the same file object) are compared with the model and with an index-set "
              "specification written from the property text inside Coq; every file written by extractSubwav / splitAudioOnTier is "
              "opened and compared sample by sample, with parameters, names, cropped-TextGrid span and label.",
              "Coq proof (sorted-permutation uniqueness for the merge of intervals and gaps, tiling induction) + in-Coq differential correspondence and oracle + file-level evaluation",
              "5/C17", "partial: file outputs (wave module, file names, cropped TextGrids) and the sine generator's values are evaluated, not modelled."),
})

CLAIMED.update({
    "C18": _c("Proof: Props/C18.v shows for every recording, target time and step that findNearestZeroCrossing terminates (the "
              "fuel bound of the loop model is never exhausted), that whatever it returns is on a sample position inside the "
              "recording and is a genuine crossing (the sample is zero or differs in sign from a neighbour), and that it otherwise "
              "raises ArgumentError exactly when the step holds fewer than two samples and FindZeroCrossingError in every other "
              "case, and never when the target is sample k >= 1 and sample k-1 is zero (so never on silence).  Results on in-memory and file-backed recordings are compared with the model on the exact time grid and judged "
              "by the statement of the property inside Coq on all grids, each call under an alarm.  tgBoundariesToZeroCrossings "
              "(model tg_zc: tiers, names, order kept, every time mapped through the search, labels kept) and audioSplice (model "
              "splice with _shiftTimes: if the textgrid ends where the recording ends, so does the returned pair, with or without "
              "alignment or a replaced region; the named tier holds the new interval over exactly the inserted samples) are proved "
              "on their models and compared with the scripts as whole textgrids / recordings inside Coq; the scripts' statements "
              "are pinned by the translator (facts/FactsScripts.v).",
              "Coq proof (fuel/measure argument for termination, window-to-recording lemma for soundness, span invariants through the splice) + in-Coq differential correspondence and oracle",
              "5/C18", "partial: at non-dyadic rates a search with two exactly tied candidates is decided by binary64 rounding; such cases are judged by the oracle only."),
})

CLAIMED.update({
    "C19": _c("Proof: Props/C19.v shows that the point rows written for a KlattGrid tier (any number of points, any indentation, any "
              "number tokens) are read back by the section parser as exactly the same (time, value) tokens in order, that "
              "modifyValues / modifySubtiers is a map over the values (each value once, times and count untouched), that slicing a "
              "file into sections at ascending indices loses no character (the pre-repair slicer is refuted by a witness), and "
              "that the short text form of PointProcess / PitchTier / DurationTier objects round-trips span and every point token.  "
              "_processSectionData, PointObject.save and the short-form readers are compared with the models inside Coq; the "
              "whole-file clauses are decided on real files: the reference KlattGrid and synthetic KlattGrids written by an "
              "independent writer are opened, optionally modified on a random subset of tiers (call counts, untouched tiers), "
              "saved, reopened and compared bit for bit incl. hierarchy and spans, the saved text is a fixed point, and long and "
              "short encodings of point objects open to equal objects.",
              "Coq proof (scanner lemmas, list induction) + in-Coq differential correspondence + file-level evaluation against an independent writer",
              "5/C19", "partial: the top-level KlattGrid reader (section discovery by keyword, container tiers) and _cleanNumericValues are evaluated, not modelled; repr()/float() are trusted (numbers are tokens)."),
})

CLAIMED.update({
    "C20": _c("Proof: Props/C20.v shows, for any element type and filter function, that the windowed filter keeps the length, that "
              "element x is the function of its window when padding is on or the window fits and is left unchanged otherwise, that "
              "the window is element x with its floor(window/2) neighbours on either side of the edge-extended series (the source's "
              "lastKnownLargeIndex bookkeeping is edge clamping), that the window's median is the middle of the sorted window and a "
              "value of the window; that filterTimeSeriesData keeps rows, order and the other columns; the detectPitchErrors "
              "criterion; the listing-row clauses (header, skip, substitute); and over the reals that z-normalisation keeps length "
              "and rank order and yields mean 0 and sample standard deviation 1, and that rms / population deviation are the "
              "non-negative roots of their definitions.  medianFilter, filterTimeSeriesData, detectPitchErrors and loadTimeSeriesData "
              "(on real files) are compared with the models and with the definitions inside Coq; znormalizeData, rms and "
              "getPitchMeasures are judged against exact rational arithmetic (relative tolerance 1e-9).",
              "Coq proof (loop invariant for the index bookkeeping, list induction; Reals for the statistics) + in-Coq differential correspondence and oracle + exact-arithmetic evaluation",
              "5/C20", "The z-normalisation / rms / deviation theorems depend on the standard library's real-number axioms "
              "(ClassicalDedekindReals.sig_forall_dec, sig_not_dec, FunctionalExtensionality.functional_extensionality_dep); binary64 "
              "rounding of the statistics is evaluated with a tolerance, not proved."),
})

PENDING = {}


def main():
    props = [json.loads(l) for l in open(os.path.join(VERIF, "properties.jsonl"))]
    checks = []
    na = []
    for p in props:
        pid = p["id"]
        if pid in CLAIMED:
            c = CLAIMED[pid]
            checks.append({
                "property_id": pid,
                "quick_cmd": "./check %s --tier quick" % pid,
                "thorough_cmd": "./check %s --tier thorough" % pid,
                "evidence_file": "evidence/%s.json" % pid,
                "replay_cmd_template": "./check %s --replay {path}" % pid,
                "engine": "coq-model+diff",
                "level_claimed": {"category": "proof", "text": c["text"], "design_ref": c["design_ref"]},
                "level_note": c["note"],
                "technique": c["technique"],
            })
        else:
            na.append({"property_id": pid,
                       "reason": PENDING.get(pid, "not claimed yet: model, theorems and correspondence for this property are not built in this round (technique applies; see DESIGN.md section 5)")})
    man = {
        "version": 1,
        "setup_cmd": "./setup.sh",
        "hooks": {"guard": "PRAATIO_VERIF", "enable": "no hooks are needed: every observation goes through the public API, private helpers imported by name, or files; VERIF_REPO=<checkout> points the checks at another working tree",
                  "baseline_off_cmd": "cd /repo && /venv/bin/python -m pytest -ra -q -p no:cacheprovider --timeout=900 --continue-on-collection-errors",
                  "source_commits": [], "add_only": True},
        "engines": [
            {"name": "coq", "path": "coq/theories", "serves_properties": sorted(CLAIMED),
             "kind_free_text": "Coq 8.16.1 development: models, specifications, proofs, boolean oracles; Props/Cnn.v holds the property theorems"},
            {"name": "source-facts", "path": "tools/source_facts.py", "serves_properties": sorted(CLAIMED),
             "kind_free_text": "Python-ast translator regenerating SourceFacts.v (regex literals, format strings, option tables, audio index expressions, KlattGrid name lists) from /repo on every run; coq/facts/Facts*.v re-prove that they are what the models were written for"},
            {"name": "harness", "path": "harness", "serves_properties": sorted(CLAIMED),
             "kind_free_text": "Python: generators, runs praatIO from /repo's working tree, writes case files evaluated by coqc (vm_compute), verdict, evidence, replay"},
        ],
        "checks": checks,
        "not_applicable": na,
        "notes": "Known defects and repairs are listed in known_findings.json; DESIGN.md explains the approach; seeded/ holds independently written breaking changes and seeded/results_seed1.json what the checks reported on them under VERIF_SEED=1.",
    }
    with open(os.path.join(VERIF, "MANIFEST.json"), "w") as fh:
        json.dump(man, fh, indent=1)
    try:
        import jsonschema
        jsonschema.validate(man, json.load(open("/root/.vp/MANIFEST.schema.json")))
        print("MANIFEST.json valid; %d claimed, %d not claimed" % (len(checks), len(na)))
    except ImportError:
        print("MANIFEST.json written (jsonschema not available to validate)")


if __name__ == "__main__":
    main()
