#!/usr/bin/env python3
"""Regenerates /verif/MANIFEST.json from the table below (kept in one place so
that the manifest is always schema-valid)."""
import json
import os

VERIF = os.path.dirname(os.path.dirname(os.path.abspath(__file__)))

TB = ("Trusted: Coq 8.16.1 kernel + vm_compute; the hand-written Gallina model (tied to /repo only by this run's "
      "differential correspondence, evaluated inside Coq); the Python harness (generators, tick<->float "
      "conversion, canonicalisation); CPython semantics mirrored in the model.  Axioms per theorem are those "
      "printed by Print Assumptions, copied into the evidence file on every run.")

CLAIMED = {
    "C06": {
        "text": "Proof: Props/C06.v (13 theorems, closed under the global context) shows for all well-formed tiers of any size, "
                "all windows, all modes and both rebase settings that the model of crop equals the filter/map/clip "
                "specification read off the property, with span, rebasing, totality (empty windows) and rejection of "
                "degenerate windows.  The model is tied to /repo on every run by evaluating, inside Coq, model = "
                "implementation output and specification = implementation output on exhaustive small scopes and random "
                "tiers (dyadic and decimal grids); Textgrid.crop is compared tier by tier.",
        "note": TB + "  Binary64 rounding on non-dyadic inputs is sampled (decimal grid), not proved.",
        "technique": "Coq proof of model = spec (induction over entry list, case analysis over comparisons) + in-Coq differential correspondence",
        "design_ref": "5/C06",
    },
}

PENDING = {}


def main():
    props = [json.loads(l) for l in open(os.path.join(VERIF, "properties.jsonl"))]
    checks = []
    na = []
    for p in props:
        pid = p["id"]
        if pid in CLAIMED:
            c = CLAIMED[pid]
            checks.append({
                "property_id": pid,
                "quick_cmd": "./check %s --tier quick" % pid,
                "thorough_cmd": "./check %s --tier thorough" % pid,
                "evidence_file": "evidence/%s.json" % pid,
                "replay_cmd_template": "./check %s --replay {path}" % pid,
                "engine": "coq-model+diff",
                "level_claimed": {"category": "proof", "text": c["text"], "design_ref": c["design_ref"]},
                "level_note": c["note"],
                "technique": c["technique"],
            })
        else:
            na.append({"property_id": pid,
                       "reason": PENDING.get(pid, "not claimed yet: model, theorems and correspondence for this property are not built in this round (technique applies; see DESIGN.md section 5)")})
    man = {
        "version": 1,
        "setup_cmd": "./setup.sh",
        "hooks": {"guard": "PRAATIO_VERIF", "enable": "no hooks are needed: every observation goes through the public API or private helpers imported by name",
                  "baseline_off_cmd": "cd /repo && /venv/bin/python -m pytest -ra -q -p no:cacheprovider --timeout=900 --continue-on-collection-errors",
                  "source_commits": [], "add_only": True},
        "engines": [
            {"name": "coq", "path": "coq/theories", "serves_properties": sorted(CLAIMED),
             "kind_free_text": "Coq 8.16.1 development: models, specifications, proofs, boolean oracles; Props/Cnn.v holds the property theorems"},
            {"name": "harness", "path": "harness", "serves_properties": sorted(CLAIMED),
             "kind_free_text": "Python: generators, runs praatIO from /repo's working tree, writes case files evaluated by coqc (vm_compute), verdict, evidence, replay"},
        ],
        "checks": checks,
        "not_applicable": na,
        "notes": "Known defects and repairs are listed in known_findings.json; DESIGN.md explains the approach.",
    }
    with open(os.path.join(VERIF, "MANIFEST.json"), "w") as fh:
        json.dump(man, fh, indent=1)
    try:
        import jsonschema
        jsonschema.validate(man, json.load(open("/root/.vp/MANIFEST.schema.json")))
        print("MANIFEST.json valid; %d claimed, %d not claimed" % (len(checks), len(na)))
    except ImportError:
        print("MANIFEST.json written (jsonschema not available to validate)")


if __name__ == "__main__":
    main()
