#!/bin/sh
# Build the Coq development from files on disk only (offline).
set -e
cd "$(dirname "$0")/coq"
find theories -name '*.vo' -o -name '*.vok' -o -name '*.vos' -o -name '*.glob' -o -name '.*.aux' | xargs rm -f
coq_makefile -f _CoqProject -o Makefile $(find theories -name '*.v' | sort) > /dev/null
timeout 3000 make -j16
echo "setup: Coq development built"
